"""Temporary-free normal form of function bodies (forward substitution of pure local temporaries).

Refactorings rename locals and introduce or inline temporaries (``K = self.tbl["K"]``, ``gaps = x[1:] - x[:-1]``,
``half_turn = np.pi * u.rad``).  Before any rule runs, every load of a local name whose *unique* reaching
definition is a side-effect-free expression is replaced by that expression, and the dead definition is removed,
so that both spellings are one form.  The pass is conservative:

* only plain ``name = expr`` definitions with a pure right-hand side (no generator draws, no I/O, no calls into
  the package or into pymc, no mutating methods);
* the definition must be the only one that can reach the use (no intervening branch / loop that rebinds the name,
  nothing loop-carried);
* nothing the right-hand side reads may be rebound between the definition and the use; if something it reads is
  mutated in place in between, only pure *aliases* (attribute / constant-key subscript chains) are substituted;
* names that are stored through (``x[i] = ...``, ``x.attr = ...``, ``x += ...``) are substituted only when they are aliases;
* empty containers that are filled later (accumulators) are never substituted.
"""
import ast

from . import astutil as A
from .norm import dotted

PURE_FUNCS = {"len", "range", "list", "tuple", "dict", "set", "frozenset", "min", "max", "abs", "int", "float", "str", "bool", "isinstance", "hasattr",
              "getattr", "enumerate", "zip", "slice", "type", "sum", "any", "all", "round", "repr", "sorted", "reversed", "Time", "divmod", "callable", "iter"}
PURE_ROOTS = {"np", "numpy", "u", "math", "pt", "tt", "os.path", "xu.UNIT_ATTR_NAME"}
IMPURE_ATTRS = {"append", "extend", "insert", "pop", "popitem", "remove", "clear", "update", "setdefault", "write", "read", "read_coordinates", "close", "sort",
                "seed", "spawn", "eval", "draw", "resize", "create_dataset", "create_group", "unlink", "open_file", "File", "map", "add", "discard",
                "uniform", "normal", "choice", "multivariate_normal", "random", "integers", "shuffle", "permutation", "permuted", "standard_normal",
                "logp", "sample", "pack", "unpack", "fill", "put", "itemset", "partition", "warn", "warning", "info", "log", "debug", "error"}
PURE_METHODS = {"copy", "to_value", "to", "keys", "values", "items", "get", "max", "min", "sum", "mean", "std", "all", "any", "argsort", "argmax", "argmin",
                "astype", "reshape", "ravel", "flatten", "tolist", "format", "join", "split", "rsplit", "startswith", "endswith", "decode", "encode", "strip",
                "lower", "upper", "index", "count", "is_equivalent", "squeeze", "transpose", "view", "argpartition", "ptp", "cumsum", "nonzero", "dot", "conj",
                "decompose", "isscalar", "phase", "radial_velocity", "unscaled_radial_velocity", "median_period", "get_orbit", "tcb", "mjd", "jd", "item", "replace", "title", "lstrip", "rstrip", "zfill", "partition_", "union", "intersection", "difference"}


def is_pure(e):
    for n in ast.walk(e):
        if isinstance(n, (ast.Yield, ast.YieldFrom, ast.Await, ast.NamedExpr, ast.Lambda)):
            return False
        if isinstance(n, ast.Call):
            f = n.func
            if isinstance(f, ast.Name):
                if f.id not in PURE_FUNCS:
                    return False
            elif isinstance(f, ast.Attribute):
                d = dotted(f)
                if f.attr in IMPURE_ATTRS:
                    return False
                if d and (d.startswith("np.random") or d.startswith("numpy.random")):
                    if f.attr not in ("Generator",):
                        return False
                root = d.split(".")[0] if d else None
                if root in PURE_ROOTS or (d and d.rsplit(".", 1)[0] in PURE_ROOTS):
                    continue
                if f.attr in PURE_METHODS:
                    continue
                return False
            else:
                return False
    return True


FRESH_CALLS = {"zeros", "ones", "empty", "full", "zeros_like", "ones_like", "empty_like", "full_like", "array", "copy", "list", "dict", "set", "bytearray"}


def is_fresh_mutable(e):
    """an expression that builds a new mutable object: substituting it at several places would turn one object into several (views / aliases would be lost)"""
    if isinstance(e, (ast.List, ast.Dict, ast.Set, ast.ListComp, ast.DictComp, ast.SetComp)):
        return True
    if isinstance(e, ast.Call):
        f = e.func
        nm = f.id if isinstance(f, ast.Name) else f.attr if isinstance(f, ast.Attribute) else None
        return nm in FRESH_CALLS
    return False


def is_alias(e):
    """attribute / constant-key subscript chain over a name: denotes the same object every time it is evaluated"""
    while True:
        if isinstance(e, ast.Attribute):
            e = e.value
        elif isinstance(e, ast.Subscript) and isinstance(e.slice, ast.Constant):
            e = e.value
        elif isinstance(e, ast.Name):
            return True
        else:
            return False


def _reads(e):
    """dotted names read by an expression (a.b.c contributes 'a', 'a.b', 'a.b.c'); names bound by its own comprehensions are not free"""
    out = set()
    own = set()
    for n in ast.walk(e):
        if isinstance(n, ast.comprehension):
            own |= {x.id for x in ast.walk(n.target) if isinstance(x, ast.Name)}
    for n in ast.walk(e):
        if isinstance(n, ast.Name) and n.id in own:
            continue
        if isinstance(n, ast.Name):
            out.add(n.id)
        elif isinstance(n, ast.Attribute):
            d = dotted(n)
            if d:
                out.add(d)
    return out


def _rebinds(stmt):
    """dotted names (re)bound by a statement, and bases mutated in place"""
    bound, mutated = set(), set()
    for n in A.walk_local(stmt):
        if isinstance(n, (ast.Assign, ast.AugAssign, ast.AnnAssign, ast.For, ast.With, ast.Delete)):
            tgts = []
            if isinstance(n, ast.Assign):
                tgts = n.targets
            elif isinstance(n, (ast.AugAssign, ast.AnnAssign)):
                tgts = [n.target]
            elif isinstance(n, ast.For):
                tgts = [n.target]
            elif isinstance(n, ast.With):
                tgts = [i.optional_vars for i in n.items if i.optional_vars is not None]
            elif isinstance(n, ast.Delete):
                tgts = n.targets
            for t in tgts:
                for x in ast.walk(t):
                    if isinstance(x, ast.Name) and isinstance(x.ctx, (ast.Store, ast.Del)):
                        bound.add(x.id)
                    elif isinstance(x, ast.Attribute) and isinstance(x.ctx, (ast.Store, ast.Del)):
                        d = dotted(x)
                        if d:
                            bound.add(d)
                    elif isinstance(x, ast.Subscript) and isinstance(x.ctx, (ast.Store, ast.Del)):
                        b = x.value
                        while isinstance(b, ast.Subscript):
                            b = b.value
                        d = dotted(b)
                        if d:
                            mutated.add(d)
        if isinstance(n, ast.Call) and isinstance(n.func, ast.Attribute) and n.func.attr in IMPURE_ATTRS:
            d = dotted(n.func.value)
            if d:
                mutated.add(d)
    return bound, mutated


def _stmts_between(def_stmt, use_stmt, fn):
    """statements executed after def_stmt and before use_stmt on the straight-line path (following siblings of def_stmt up to the
    ancestor of use_stmt in def_stmt's block, plus the preceding siblings inside the nested blocks leading to use_stmt)"""
    out = []
    blk = A.block_of(def_stmt)
    if not blk:
        return None
    _, _, lst, i = blk
    # ancestor chain of use_stmt
    chain = [use_stmt] + [a for a in A.ancestors(use_stmt) if isinstance(a, ast.stmt)]
    anc = None
    for c in chain:
        cb = A.block_of(c)
        if cb and cb[2] is lst:
            anc = (c, cb[3])
            break
    if anc is None or anc[1] <= i:
        return None
    out.extend(lst[i + 1:anc[1]])
    # inside the nested blocks: statements preceding the path to use_stmt
    cur = use_stmt
    while cur is not anc[0]:
        cb = A.block_of(cur)
        if not cb:
            return None
        p, f, l2, j = cb
        out.extend(l2[:j])
        # the headers of compound statements on the way (loop iterables, if tests) are evaluated too but bind nothing relevant
        cur = p if isinstance(p, ast.stmt) else A.parent(p)
        if cur is None:
            return None
        if isinstance(cur, (ast.For, ast.While, ast.AsyncFor)):
            # the use sits in a loop body that starts after the definition: everything in the loop body may run before a later iteration's use
            out.extend(cur.body)
    return out


class _Sub(ast.NodeTransformer):
    def __init__(self, name, expr, targets):
        self.name, self.expr, self.targets = name, expr, targets

    def visit_Name(self, n):
        if id(n) in self.targets:
            return A.clone(self.expr)
        return n


def _chains(e):
    """maximal dotted chains read by an expression (a.b.c contributes only 'a.b.c'; a bare name contributes itself)"""
    out = set()

    def rec(n, top=True):
        if isinstance(n, ast.Attribute):
            d = dotted(n)
            if d:
                out.add(d)
                return
        if isinstance(n, ast.Name):
            out.add(n.id)
            return
        for ch in ast.iter_child_nodes(n):
            rec(ch)
    rec(e)
    return out


def _split_unpacking(fn):
    """a, b = x, y  ->  a = x; b = y   when no right-hand side reads something bound earlier in the same statement (no swap); targets may be names or
    attribute chains (self.a, self.b = ...);   a, b = (f(v) for v in (p, q))  ->  a = f(p); b = f(q)"""
    changed = False
    for s in list(A.walk_local(fn)):
        if not (isinstance(s, ast.Assign) and len(s.targets) == 1 and isinstance(s.targets[0], (ast.Tuple, ast.List))
                and all(isinstance(t, ast.Name) or (isinstance(t, ast.Attribute) and dotted(t)) for t in s.targets[0].elts)):
            continue
        tg = s.targets[0].elts
        vals = None
        v = s.value
        if isinstance(v, (ast.Tuple, ast.List)) and len(v.elts) == len(tg) and not any(isinstance(x, ast.Starred) for x in v.elts):
            vals = list(v.elts)
        elif isinstance(v, (ast.GeneratorExp, ast.ListComp)) and len(v.generators) == 1 and not v.generators[0].ifs and isinstance(v.generators[0].target, ast.Name) \
                and isinstance(v.generators[0].iter, (ast.Tuple, ast.List)) and len(v.generators[0].iter.elts) == len(tg) \
                and not any(isinstance(x, ast.Starred) for x in v.generators[0].iter.elts):
            var = v.generators[0].target.id
            vals = [A._Subst({var: x}, False).visit(A.clone(v.elt)) for x in v.generators[0].iter.elts]
        if vals is None:
            continue
        ok = True
        bound = []
        for t, x in zip(tg, vals):
            reads = _chains(x)
            for b in bound:
                if any(r == b or r.startswith(b + ".") or b.startswith(r + ".") and "." not in r and r != "self" for r in reads):
                    ok = False
            if not ok:
                break
            bound.append(t.id if isinstance(t, ast.Name) else dotted(t))
        if not ok:
            continue
        blk = A.block_of(s)
        if not blk:
            continue
        p, f, lst, i = blk
        new = []
        for t, x in zip(tg, vals):
            t2 = A.clone(t)
            t2.ctx = ast.Store()
            new.append(ast.copy_location(ast.Assign(targets=[t2], value=x), s))
        lst[i:i + 1] = new
        changed = True
    if changed:
        ast.fix_missing_locations(fn)
        A_relink(fn)
    return changed


def _inline_adjacent(fn):
    """x = E  immediately followed by the only statement that reads x, which evaluates x before anything but plain names / constants:
    the temporary is removed whatever E is (calls included) - the order of evaluation does not change."""
    changed = False
    params = set(A.param_names(fn))
    again = True
    while again:
        again = False
        for s in list(A.walk_local(fn)):
            if not (isinstance(s, ast.Assign) and len(s.targets) == 1 and isinstance(s.targets[0], ast.Name)):
                continue
            name = s.targets[0].id
            if name in params:
                continue
            blk = A.block_of(s)
            if not blk:
                continue
            p, f, lst, i = blk
            if i + 1 >= len(lst):
                continue
            nxt = lst[i + 1]
            if not isinstance(nxt, (ast.Return, ast.Assign, ast.Expr, ast.AugAssign)) or getattr(nxt, "value", None) is None:
                continue
            occ = [n for n in ast.walk(fn) if isinstance(n, ast.Name) and n.id == name]
            loads = [n for n in occ if isinstance(n.ctx, ast.Load)]
            stores = [n for n in occ if not isinstance(n.ctx, ast.Load)]
            if len(loads) != 1 or len(stores) != 1:
                continue
            use = loads[0]
            if not any(x is use for x in ast.walk(nxt.value)):
                continue
            if isinstance(nxt, ast.Assign) and any(not isinstance(t, ast.Name) for t in nxt.targets):
                continue   # a subscript / attribute target is evaluated after the value: keep it simple
            if isinstance(nxt, ast.AugAssign):
                continue
            if any(isinstance(x, (ast.Lambda, ast.ListComp, ast.DictComp, ast.SetComp, ast.GeneratorExp)) and any(y is use for y in ast.walk(x)) for x in ast.walk(nxt.value)):
                continue
            if not _evaluated_first(nxt.value, use):
                continue
            _Sub(name, s.value, {id(use)}).visit(nxt)
            lst.pop(i)
            A_relink(fn)
            changed = True
            again = True
            break
    return changed


def _evaluated_first(expr, use):
    """is `use` reached, in evaluation order, after nothing but names and constants?"""
    state = {"found": False, "blocked": False}

    def rec(n):
        if state["found"] or state["blocked"]:
            return
        if n is use:
            state["found"] = True
            return
        if isinstance(n, (ast.Name, ast.Constant)):
            return
        if isinstance(n, ast.Attribute):
            rec(n.value)
            if not state["found"]:
                state["blocked"] = True   # an attribute load could observe side effects of the inlined expression
            return
        if isinstance(n, ast.Call):
            rec(n.func) if not isinstance(n.func, (ast.Name,)) else None
            for a in n.args:
                rec(a)
                if state["found"] or state["blocked"]:
                    return
            for k in n.keywords:
                rec(k.value)
                if state["found"] or state["blocked"]:
                    return
            state["blocked"] = True
            return
        if isinstance(n, ast.BoolOp):
            rec(n.values[0])
            if not state["found"]:
                state["blocked"] = True
            return
        if isinstance(n, ast.IfExp):
            rec(n.test)
            if not state["found"]:
                state["blocked"] = True
            return
        for ch in ast.iter_child_nodes(n):
            if isinstance(ch, (ast.expr_context, ast.operator, ast.unaryop, ast.cmpop, ast.boolop)):
                continue
            rec(ch)
            if state["found"] or state["blocked"]:
                return
        if not state["found"] and not isinstance(n, (ast.Tuple, ast.List, ast.Starred, ast.keyword, ast.Slice)):
            if isinstance(n, (ast.BinOp, ast.UnaryOp, ast.Compare, ast.Subscript)):
                state["blocked"] = True
    rec(expr)
    return state["found"]


def _scalarize_dicts(fn):
    """scalar replacement of small keyword dictionaries: a local name bound ONCE, to a dict display with constant string keys, that is otherwise only
    read / written through those constant keys (`D["k"]`, `D["k"] = v`) or splatted into calls (`f(**D)`), is replaced by one local per key:
        D = {"a": x, "b": y}; if c: D["b"] = g(D["b"]); return f(**D)   ->   D__a = x; D__b = y; if c: D__b = g(D__b); return f(a=D__a, b=D__b)"""
    changed = False
    binds = {}
    for s in A.walk_local(fn):
        if isinstance(s, ast.Assign) and len(s.targets) == 1 and isinstance(s.targets[0], ast.Name):
            binds.setdefault(s.targets[0].id, []).append(s)
    params = set(A.param_names(fn))
    for name, sts in binds.items():
        if len(sts) != 1 or name in params:
            continue
        st = sts[0]
        d = st.value
        if not (isinstance(d, ast.Dict) and d.keys and all(k is not None and isinstance(k, ast.Constant) and isinstance(k.value, str) and k.value.isidentifier() for k in d.keys)):
            continue
        keys = [k.value for k in d.keys]
        if len(set(keys)) != len(keys):
            continue
        ok = True
        uses = []
        for n in ast.walk(fn):
            if isinstance(n, ast.Name) and n.id == name and n is not st.targets[0]:
                par = getattr(n, "_parent", None)
                if isinstance(par, ast.Subscript) and par.value is n and isinstance(par.slice, ast.Constant) and par.slice.value in keys:
                    uses.append(("sub", par))
                elif isinstance(par, ast.keyword) and par.arg is None and par.value is n:
                    uses.append(("star", par))
                else:
                    ok = False
                    break
        if not ok or not uses or not any(k == "star" for k, _ in uses):
            continue
        # the display statement must come first in its block order relative to all uses (it dominates them): the single binding precedes every use textually
        if any(getattr(u, "lineno", 10 ** 9) < st.lineno for _, u in uses if hasattr(u, "lineno")):
            continue
        # nested functions reading D: give up
        if any(isinstance(x, A.FUNC_TYPES + (ast.Lambda,)) and any(isinstance(y, ast.Name) and y.id == name for y in ast.walk(x)) for x in ast.walk(fn) if x is not fn):
            continue
        loc = {k: "%s__%s" % (name, k) for k in keys}
        for kind, node in uses:
            if kind == "sub":
                ctx_ = node.ctx
                k = node.slice.value
                node.__class__ = ast.Name
                for a_ in ("value", "slice"):
                    delattr(node, a_)
                node.id, node.ctx = loc[k], ctx_
            else:
                call = getattr(node, "_parent", None)
                if not isinstance(call, ast.Call):
                    ok = False
                    continue
                i = call.keywords.index(node)
                call.keywords[i:i + 1] = [ast.keyword(arg=k, value=ast.Name(id=loc[k], ctx=ast.Load())) for k in keys]
        new = [ast.copy_location(ast.Assign(targets=[ast.Name(id=loc[k.value], ctx=ast.Store())], value=v), st) for k, v in zip(d.keys, d.values)]
        blk = A.block_of(st)
        if blk:
            p_, f_, lst, i = blk
            lst[i:i + 1] = new
            changed = True
    if changed:
        ast.fix_missing_locations(fn)
        from .inline import _relink
        _relink(fn, getattr(fn, "_parent", None), getattr(fn, "_module", None))
    return changed


def _coalesce_copies(fn):
    """y = x  (both plain locals, not in a loop) where x is never mentioned after the copy and y is never mentioned before it: x and y are one variable.
    Every occurrence of x is renamed to y and the copy disappears (typical after inlining a helper: `n = __h1_n`)."""
    changed = False
    params = set(A.param_names(fn))
    for _ in range(50):
        again = False
        for s in list(A.walk_local(fn)):
            if not (isinstance(s, ast.Assign) and len(s.targets) == 1 and isinstance(s.targets[0], ast.Name) and isinstance(s.value, ast.Name)):
                continue
            y, x = s.targets[0].id, s.value.id
            if x == y or x in params or y in params:
                continue
            if any(isinstance(a, (ast.For, ast.While, ast.AsyncFor)) for a in A.ancestors(s) if not isinstance(a, A.FUNC_TYPES)):
                continue
            pos = (s.lineno, s.col_offset)
            end = (getattr(s, "end_lineno", s.lineno), getattr(s, "end_col_offset", 10 ** 6))
            ok = True
            n_x = 0
            for n in ast.walk(fn):
                if isinstance(n, ast.Name) and n is not s.targets[0] and n is not s.value:
                    p_ = (getattr(n, "lineno", 0), getattr(n, "col_offset", 0))
                    if n.id == x:
                        n_x += 1
                        if p_ > pos:
                            ok = False
                    elif n.id == y and p_ < pos:
                        ok = False
                elif isinstance(n, (ast.Global, ast.Nonlocal)) and (x in n.names or y in n.names):
                    ok = False
                elif isinstance(n, A.FUNC_TYPES + (ast.Lambda,)) and n is not fn and any(isinstance(m, ast.Name) and m.id in (x, y) for m in ast.walk(n)):
                    ok = False
            if not ok or n_x == 0:
                continue
            # positions are only trustworthy on original source text: inlined statements carry the call site's position, so require distinct, ordered positions
            defs_x = [n for n in ast.walk(fn) if isinstance(n, ast.Name) and n.id == x and isinstance(n.ctx, ast.Store)]
            if not defs_x:
                continue
            for n in ast.walk(fn):
                if isinstance(n, ast.Name) and n.id == x:
                    n.id = y
            blk = A.block_of(s)
            if blk:
                p_, f_, lst, i = blk
                lst[i:i + 1] = [] if len(lst) > 1 else [ast.copy_location(ast.Pass(), s)]
            changed = again = True
            break
        if not again:
            break
    return changed


def _forward_attr_stores(fn):
    """self.a = x  (x a local bound once, `self.a` stored once): later reads of x are reads of self.a - the hoisted-attribute spelling and the attribute spelling
    become one (the attribute is the normal form, as rules and specifications are written over attributes)."""
    changed = False
    params = set(A.param_names(fn))
    ndef = {}
    for n in A.walk_local(fn):
        if isinstance(n, ast.Name) and isinstance(n.ctx, (ast.Store, ast.Del)):
            ndef[n.id] = ndef.get(n.id, 0) + 1
    attr_stores = {}
    for n in A.walk_local(fn):
        if isinstance(n, ast.Attribute) and isinstance(n.ctx, (ast.Store, ast.Del)):
            d = dotted(n)
            if d:
                attr_stores[d] = attr_stores.get(d, 0) + 1
    for s in list(A.walk_local(fn)):
        if not (isinstance(s, ast.Assign) and len(s.targets) == 1 and isinstance(s.targets[0], ast.Attribute) and isinstance(s.value, ast.Name)):
            continue
        d = dotted(s.targets[0])
        x = s.value.id
        if not d or not d.startswith("self.") or d.count(".") != 1 or x in params or ndef.get(x, 0) != 1 or attr_stores.get(d, 0) != 1:
            continue
        if any(isinstance(a, (ast.For, ast.While, ast.AsyncFor)) for a in A.ancestors(s) if not isinstance(a, A.FUNC_TYPES)):
            continue
        here = A.doc_index(s)
        for n in list(ast.walk(fn)):
            if isinstance(n, ast.Name) and n.id == x and isinstance(n.ctx, ast.Load) and n is not s.value:
                st = A.enclosing_stmt(n)
                if st is None or A.enclosing_function(n) is not fn or A.doc_index(st) <= here:
                    continue
                n.__class__ = ast.Attribute
                del n.id
                n.value, n.attr, n.ctx = ast.Name(id="self", ctx=ast.Load()), d.split(".", 1)[1], ast.Load()
                changed = True
    if changed:
        ast.fix_missing_locations(fn)
        from .inline import _relink
        _relink(fn, getattr(fn, "_parent", None), getattr(fn, "_module", None))
    return changed


def normalize_function(fn, max_rounds=300):
    if _forward_attr_stores(fn):
        pass
    changed_any = False
    for _ in range(4):
        c = _normalize_function_once(fn, max_rounds)
        changed_any = changed_any or c
        if not _coalesce_copies(fn):
            break
        changed_any = True
    return changed_any


def _normalize_function_once(fn, max_rounds=300):
    changed_any = _split_unpacking(fn)
    if _coalesce_copies(fn):
        changed_any = True
    if _scalarize_dicts(fn):
        changed_any = True
    if _inline_adjacent(fn):
        changed_any = True
    params = set(A.param_names(fn))
    for _ in range(max_rounds):
        changed = False
        stored_through = set()
        aug = set()
        for n in A.walk_local(fn):
            if isinstance(n, (ast.Subscript, ast.Attribute)) and isinstance(n.ctx, (ast.Store, ast.Del)):
                b = n.value
                while isinstance(b, (ast.Subscript, ast.Attribute)):
                    b = b.value
                if isinstance(b, ast.Name):
                    stored_through.add(b.id)
            if isinstance(n, ast.AugAssign) and isinstance(n.target, ast.Name):
                aug.add(n.target.id)
            if isinstance(n, ast.Call) and isinstance(n.func, ast.Attribute) and n.func.attr in IMPURE_ATTRS and isinstance(n.func.value, ast.Name):
                stored_through.add(n.func.value.id)
            if isinstance(n, (ast.Global, ast.Nonlocal)):
                return changed_any
        nested_reads = set()
        for n in ast.walk(fn):
            if n is not fn and isinstance(n, A.FUNC_TYPES):
                nested_reads |= {x.id for x in ast.walk(n) if isinstance(x, ast.Name)}
        comp_bound = set()
        for n in A.walk_local(fn):
            if isinstance(n, ast.comprehension):
                comp_bound |= {x.id for x in ast.walk(n.target) if isinstance(x, ast.Name)}
        defs = [s for s in A.walk_local(fn) if isinstance(s, ast.Assign) and len(s.targets) == 1 and isinstance(s.targets[0], ast.Name)]
        for s in defs:
            name = s.targets[0].id
            if name in params or name in aug or name in nested_reads or name in comp_bound or name.startswith("__h") and False:
                continue
            v = s.value
            if isinstance(v, (ast.List, ast.Dict, ast.Set)) and not getattr(v, "elts", getattr(v, "keys", None)):
                continue
            if isinstance(v, ast.Constant) and v.value is None:
                continue   # `x = None` placeholders participate in later conditional rebinding
            if not is_pure(v):
                continue
            alias = is_alias(v)
            if name in stored_through and not alias:
                continue
            if name in _reads(v):
                continue
            loads = [n for n in A.walk_local(fn) if isinstance(n, ast.Name) and n.id == name and isinstance(n.ctx, ast.Load)]
            mine = []
            safe = True
            for ld in loads:
                us = A.enclosing_stmt(ld)
                if us is s:
                    safe = False
                    break
                ds = A.raw_reaching_def_stmt(name, us) if not _in_header_of_own_block(ld, us) else A.raw_reaching_def_stmt(name, us)
                if ds is s:
                    mine.append((ld, us))
                elif ds is None:
                    # a load whose definition is ambiguous: if this definition could be among them, do not touch the name at all
                    if _may_reach(s, us, fn):
                        safe = False
                        break
            if not safe or not mine:
                continue
            if len(mine) > 1 and is_fresh_mutable(v) and _escapes(name, fn):
                continue
            reads = _reads(v)
            ok = True
            for ld, us in mine:
                between = _stmts_between(s, us, fn)
                if between is None:
                    ok = False
                    break
                for b in between:
                    bound, mutated = _rebinds(b)
                    if bound & reads or any(r.split(".")[0] in bound for r in reads if "." in r and r.split(".")[0] != "self") :
                        ok = False
                        break
                    if not alias and (mutated & reads or any(any(r == m or r.startswith(m + ".") or m.startswith(r + ".") for m in mutated) for r in reads)):
                        ok = False
                        break
                if not ok:
                    break
            if not ok:
                continue
            ids = {id(ld) for ld, _ in mine}
            _Sub(name, v, ids).visit(fn)
            A_relink(fn)
            # remove the dead definition
            blk = A.block_of(s)
            if blk:
                p, f, lst, i = blk
                if len(lst) > 1:
                    lst.pop(i)
                else:
                    lst[i] = ast.copy_location(ast.Pass(), s)
            A_relink(fn)
            changed = True
            changed_any = True
            break
        if not changed:
            break
    return changed_any


def _escapes(name, fn):
    """is some view / alias of the object bound to ``name`` created (so that it could be changed without naming it)?  `name.T`, `name[...]`, `name.reshape(..)`
    etc. bound to another name, iterated, or passed to zip / iter / enumerate; or the bare name bound to another name."""
    for n in A.walk_local(fn):
        if isinstance(n, ast.Name) and n.id == name and isinstance(n.ctx, ast.Load):
            cur, par = n, A.parent(n)
            while isinstance(par, (ast.Attribute, ast.Subscript)) and par.value is cur and isinstance(par.ctx, ast.Load):
                cur, par = par, A.parent(par)
            if isinstance(par, ast.Call) and cur in par.args and isinstance(par.func, ast.Name) and par.func.id in ("zip", "iter", "enumerate", "reversed"):
                return True
            if isinstance(par, (ast.For, ast.comprehension)) and getattr(par, "iter", None) is cur and cur is not n:
                return True
            if isinstance(par, ast.Assign) and par.value is cur and (cur is n or isinstance(cur, ast.Attribute) and cur.attr == "T" or isinstance(cur, ast.Subscript)) \
                    and any(isinstance(t, ast.Name) for t in par.targets) and not (isinstance(cur, ast.Subscript) and isinstance(cur.slice, ast.Constant)):
                # a slice / transpose / the object itself bound to another name is (possibly) a view
                if cur is n or isinstance(cur, ast.Attribute) or isinstance(cur.slice, (ast.Slice, ast.Tuple)):
                    return True
    return False


def _order(fn):
    out = {}

    def rec(n):
        if isinstance(n, ast.stmt):
            out[id(n)] = len(out)
        for ch in ast.iter_child_nodes(n):
            if isinstance(ch, A.FUNC_TYPES) or isinstance(ch, ast.ClassDef):
                continue
            rec(ch)
    for st in fn.body:
        rec(st)
    return out


def _may_reach(s, us, fn):
    """can the definition statement s reach the statement us?  (us follows s in program order, or a loop encloses both)"""
    for a in A.ancestors(s):
        if isinstance(a, (ast.For, ast.While, ast.AsyncFor)) and (a is us or A.is_ancestor(a, us)):
            return True
        if isinstance(a, A.FUNC_TYPES):
            break
    o = _order(fn)
    return o.get(id(us), 0) >= o.get(id(s), 0)


def _in_header_of_own_block(ld, us):
    return False


def A_relink(fn):
    from .inline import _relink
    _relink(fn, getattr(fn, "_parent", None), getattr(fn, "_module", None))
