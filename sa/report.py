"""Obligation bookkeeping, known-findings matching, replay + evidence writers."""
import ast
import hashlib
import json
import os
import time

from . import astutil as A

VERIF = os.path.dirname(os.path.dirname(os.path.abspath(__file__)))
KNOWN_FILE = os.path.join(VERIF, "known_findings.json")


class Obligation:
    __slots__ = ("rule", "file", "line", "function", "instance", "verdict", "reason", "facts", "nontrivial", "key")

    def as_dict(self):
        return {k: getattr(self, k) for k in self.__slots__}


class Ctx:
    def __init__(self, prop_id, tier, prog, quiet=False):
        self.prop = prop_id
        self.tier = tier
        self.prog = prog
        self.quiet = quiet
        self.obls = []
        self.floors = []       # (rule, found, floor)
        self.rules = {}        # rule id -> text
        self.assumptions = []
        self.incomplete = []   # (rule, site, reason)
        self.t0 = time.time()
        self.consulted = set()
        self.notes = []

    # ---- declaring
    def rule(self, rid, text):
        if rid in self.rules and text not in self.rules[rid]:
            self.rules[rid] += "  ++  " + text
        elif rid not in self.rules:
            self.rules[rid] = text

    def assume(self, text):
        if text not in self.assumptions:
            self.assumptions.append(text)

    def _site(self, node):
        if node is None:
            return "?", 0, "?"
        if isinstance(node, tuple):
            return node
        m = getattr(node, "_module", None)
        fn = node if isinstance(node, (ast.FunctionDef, ast.AsyncFunctionDef)) else A.enclosing_function(node)
        q = (m.name + "." if m else "") + (A.qualname(fn) if fn is not None else "<module>")
        if m:
            self.consulted.add(m.name)
        return (m.relpath if m else "?"), getattr(node, "lineno", 0), q

    def add(self, rule, node, instance, verdict, reason="", facts=None, nontrivial=True, key=None):
        o = Obligation()
        o.rule = rule
        o.file, o.line, o.function = self._site(node)
        o.instance = instance
        o.verdict = verdict
        o.reason = reason
        o.facts = facts
        o.nontrivial = nontrivial
        o.key = "%s|%s|%s" % (rule, o.function, key if key is not None else instance)
        self.obls.append(o)
        return o

    def ok(self, rule, node, instance, reason="", **kw):
        return self.add(rule, node, instance, "discharged", reason, **kw)

    def violate(self, rule, node, instance, reason, **kw):
        return self.add(rule, node, instance, "violated", reason, **kw)

    def undecided(self, rule, node, instance, reason, **kw):
        return self.add(rule, node, instance, "undecided", reason, **kw)

    def check(self, rule, node, instance, cond, reason_bad, reason_ok="", **kw):
        if cond:
            return self.ok(rule, node, instance, reason_ok, **kw)
        return self.violate(rule, node, instance, reason_bad, **kw)

    def floor(self, rule, found, floor):
        self.floors.append((rule, found, floor))
        if found < floor:
            self.incomplete.append((rule, "floor", "enumerated %d instances, floor confirmed by hand is %d" % (found, floor)))

    def incomplete_(self, rule, site, reason):
        self.incomplete.append((rule, site, reason))

    def count(self, rule):
        return sum(1 for o in self.obls if o.rule == rule)

    # ---- finishing
    def violations(self):
        return [o for o in self.obls if o.verdict == "violated"]

    def finish(self, write=True):
        known = load_known()
        viol = self.violations()
        known_keys = {k["key"]: k for k in known if k.get("status") == "known" and k.get("property") == self.prop}
        matched, fresh = [], []
        for o in viol:
            if o.key in known_keys:
                matched.append(o)
            else:
                fresh.append(o)
        undec = [o for o in self.obls if o.verdict == "undecided"]
        out = []
        for o in matched:
            out.append("KNOWN-FINDING: property=%s %s %s %s" % (self.prop, o.rule, o.function, known_keys[o.key].get("what", o.reason)))
        replay_paths = []
        seen = set()
        for o in fresh:
            if o.key in seen:
                continue
            seen.add(o.key)
            h = hashlib.sha256(o.key.encode()).hexdigest()[:12]
            path = os.path.join(VERIF, "replay", "%s-%s.json" % (self.prop, h))
            replay_paths.append(path)
            out.append("%s:%s: [%s] %s: %s -- %s" % (o.file, o.line, o.rule, o.function, o.instance, o.reason))
            out.append("VIOLATION property=%s replay=%s" % (self.prop, path))
            if write:
                os.makedirs(os.path.dirname(path), exist_ok=True)
                with open(path, "w") as f:
                    json.dump({"property": self.prop, "tier": self.tier, "finding": o.as_dict(),
                               "rule_text": self.rules.get(o.rule, ""),
                               "how_to_replay": "cd /verif && ./check %s --tier %s   (static: re-analyses /repo; the finding is keyed by rule|function|construct)" % (self.prop, self.tier)},
                              f, indent=1, default=str)
        for o in undec:
            out.append("%s:%s: [%s] %s: %s -- undecided: %s" % (o.file, o.line, o.rule, o.function, o.instance, o.reason))
            out.append("ANALYSIS-INCOMPLETE property=%s rule=%s site=%s:%s reason=%s" % (self.prop, o.rule, o.file, o.line, o.reason))
        for rule, site, reason in self.incomplete:
            out.append("ANALYSIS-INCOMPLETE property=%s rule=%s site=%s reason=%s" % (self.prop, rule, site, reason))
        if fresh:
            code = 1
        elif undec or self.incomplete:
            code = 2
        else:
            code = 0
        if not self.quiet:
            by_rule = {}
            for o in self.obls:
                by_rule.setdefault(o.rule, [0, 0])
                by_rule[o.rule][0] += 1
                by_rule[o.rule][1] += o.verdict == "discharged"
            print("property %s tier=%s: %d obligations over %d rules, %d discharged, %d violated (%d known), %d undecided"
                  % (self.prop, self.tier, len(self.obls), len(by_rule), sum(o.verdict == "discharged" for o in self.obls),
                     len(viol), len(matched), len(undec)))
            for r in sorted(by_rule):
                fl = [f for f in self.floors if f[0] == r]
                print("  %-14s %3d/%3d%s" % (r, by_rule[r][1], by_rule[r][0], ("  (floor %d)" % fl[0][2]) if fl else ""))
            for line in out:
                print(line)
        if write:
            self.write_evidence(code, matched, fresh, undec)
        self.exit_code = code
        return code

    def write_evidence(self, code, matched, fresh, undec):
        nontrivial = {o.key for o in self.obls if o.nontrivial}
        samples = []
        seen_rules = set()
        for o in self.obls:  # one sample per rule first, then the violations
            if o.rule not in seen_rules:
                seen_rules.add(o.rule)
                samples.append(o.as_dict())
        for o in matched + fresh + undec:
            samples.append(o.as_dict())
        funcs = sorted({o.function for o in self.obls})
        ev = {
            "property_id": self.prop,
            "tier": self.tier,
            "seed": int(os.environ.get("VERIF_SEED", "0") or 0),
            "level": "other",
            "coverage": {
                "explanation": "Static analysis of the current /repo sources (ast + fail-closed Cython desugarer; nothing imported or run). "
                               "Rules applied: " + " || ".join("%s: %s" % kv for kv in sorted(self.rules.items())),
                "obligations": len(self.obls),
                "discharged": sum(o.verdict == "discharged" for o in self.obls),
                "evaluations": len(self.obls),
                "distinct_nontrivial": len(nontrivial),
                "rule": "one obligation per (rule, function, construct) instance enumerated from the parsed sources; "
                        "non-trivial = its decision needed dataflow / normal-form / dominance reasoning rather than a presence test; distinct = distinct key",
                "samples": samples[:60],
                "exhaustive": True,
                "modules_analysed": sorted(self.prog.modules),
                "modules_consulted": sorted(self.consulted),
                "functions_with_obligations": funcs,
                "source_digest": self.prog.digest(),
                "floors": [{"rule": r, "found": f, "floor": fl} for r, f, fl in self.floors],
                "known_findings_matched": [o.key for o in matched],
                "undecided": [o.key for o in undec] + ["%s@%s: %s" % x for x in self.incomplete],
                "notes": self.notes,
                "repo_root": self.prog.root,
            },
            "assumptions": self.assumptions,
            "wall_s": round(time.time() - self.t0, 3),
            "violations": len(fresh),
            "exit_code": code,
        }
        d = os.path.join(VERIF, "evidence")
        os.makedirs(d, exist_ok=True)
        tmp = os.path.join(d, ".%s.json.tmp" % self.prop)
        with open(tmp, "w") as f:
            json.dump(ev, f, indent=1, default=str)
        os.replace(tmp, os.path.join(d, "%s.json" % self.prop))


def load_known():
    try:
        with open(KNOWN_FILE) as f:
            return json.load(f).get("findings", [])
    except FileNotFoundError:
        return []
