"""Fail-closed Cython-subset front end.

Rewrites ``fast_likelihood.pyx`` line for line into text that ``ast.parse``
accepts, keeping every line number, and records what it erased in side tables
(C types of fields / locals / parameters, function kinds, extern prototypes).
Unary ``&expr`` (address-of) becomes ``~expr`` (``ast.Invert``), which has the
same precedence class; a pre-existing ``~`` or a binary ``&`` aborts.

Anything outside the subset this file uses raises ``PyxError`` (the caller
turns that into exit 2, never into a pass or a violation).
"""
import ast
import re


class PyxError(Exception):
    pass


_IDENT = r"[A-Za-z_][A-Za-z_0-9]*"


def _strip_comment(line):
    """Return (code, comment) with the comment removed, honouring quotes."""
    q = None
    i = 0
    while i < len(line):
        c = line[i]
        if q:
            if c == "\\":
                i += 2
                continue
            if c == q:
                q = None
        else:
            if c in "'\"":
                q = c
            elif c == "#":
                return line[:i], line[i:]
        i += 1
    return line, ""


def _depth_delta(code):
    d = 0
    q = None
    i = 0
    while i < len(code):
        c = code[i]
        if q:
            if c == "\\":
                i += 2
                continue
            if c == q:
                q = None
        else:
            if c in "'\"":
                q = c
            elif c in "([{":
                d += 1
            elif c in ")]}":
                d -= 1
        i += 1
    return d


def _split_top(s, sep=","):
    out, cur, d, q = [], "", 0, None
    i = 0
    while i < len(s):
        c = s[i]
        if q:
            cur += c
            if c == "\\" and i + 1 < len(s):
                cur += s[i + 1]
                i += 2
                continue
            if c == q:
                q = None
        elif c in "'\"":
            q = c
            cur += c
        elif c in "([{":
            d += 1
            cur += c
        elif c in ")]}":
            d -= 1
            cur += c
        elif c == sep and d == 0:
            out.append(cur)
            cur = ""
        else:
            cur += c
        i += 1
    out.append(cur)
    return out


def _find_top_eq(s):
    """index of a top-level '=' that is an assignment (not ==, <=, ...)."""
    d, q = 0, None
    i = 0
    while i < len(s):
        c = s[i]
        if q:
            if c == "\\":
                i += 2
                continue
            if c == q:
                q = None
        elif c in "'\"":
            q = c
        elif c in "([{":
            d += 1
        elif c in ")]}":
            d -= 1
        elif c == "=" and d == 0:
            prev = s[i - 1] if i else ""
            nxt = s[i + 1] if i + 1 < len(s) else ""
            if prev not in "=!<>+-*/%&|^" and nxt != "=":
                return i
        i += 1
    return -1


def _decl_name(item):
    """'double[:, ::1] ll' -> ('ll', 'double[:, ::1]');  'j' -> ('j', None)"""
    item = item.strip()
    m = re.search(r"(" + _IDENT + r")\s*$", item)
    if not m:
        raise PyxError("cannot parse declaration item %r" % item)
    name = m.group(1)
    ctype = item[: m.start()].strip() or None
    return name, ctype


class PyxInfo:
    def __init__(self):
        self.cimports = []          # raw cimport lines
        self.externs = {}           # name -> [param names]
        self.module_ctypes = {}     # module-level cdef names -> ctype
        self.classes = {}           # class -> {'cdef': bool, 'fields': {name: (ctype, public)}}
        self.functions = {}         # qualname -> {'kind': def|cdef|cpdef, 'ret': ctype, 'params': {name: ctype}, 'locals': {name: ctype}}
        self.n_addrof = 0


def desugar(text, filename="<pyx>"):
    if "~" in _code_only(text):
        raise PyxError("pre-existing '~' operator: address-of encoding would be ambiguous")
    lines = text.split("\n")
    out = list(lines)
    info = PyxInfo()
    n = len(lines)

    # scope tracking: stack of (indent, kind, name)
    scopes = []

    def cur_scope(indent):
        while scopes and scopes[-1][0] >= indent:
            scopes.pop()
        return scopes[-1] if scopes else None

    def qual(indent):
        cur_scope(indent)
        return ".".join(s[2] for s in scopes)

    def scope_kind(indent):
        s = cur_scope(indent)
        return s[1] if s else "module"

    def record_decl(indent, name, ctype):
        kind = scope_kind(indent)
        if kind == "module":
            info.module_ctypes[name] = ctype
        elif kind == "class":
            cname = scopes[-1][2]
            public = False
            ct = ctype or ""
            if ct.startswith("public "):
                public = True
                ct = ct[len("public "):].strip()
            info.classes[cname]["fields"][name] = (ct, public)
        else:
            info.functions[qual(indent + 1)]["locals"][name] = ctype

    def handle_decl(i, indent_for_emit, scope_indent, code, comment):
        """code is the declaration text without leading 'cdef '. Returns index of last line consumed."""
        eq = _find_top_eq(code)
        if eq >= 0:
            lhs, rhs = code[:eq], code[eq + 1:]
            name, ctype = _decl_name(lhs)
            record_decl(scope_indent, name, ctype)
            out[i] = " " * indent_for_emit + name + " =" + rhs + comment
            d = _depth_delta(rhs)
            j = i
            while d > 0:
                j += 1
                if j >= n:
                    raise PyxError("unterminated initialiser at line %d" % (i + 1))
                c2, _ = _strip_comment(lines[j])
                d += _depth_delta(c2)
            return j
        items = _split_top(code)
        last_type = None
        for k, it in enumerate(items):
            if not it.strip():
                raise PyxError("empty declaration item at line %d" % (i + 1))
            name, ctype = _decl_name(it)
            if k == 0:
                last_type = ctype
            record_decl(scope_indent, name, ctype or last_type)
        out[i] = " " * indent_for_emit + ("pass" if False else "") + comment if comment.strip() else ""
        return i

    def parse_params(sig):
        params = {}
        names = []
        for p in _split_top(sig):
            p = p.strip()
            if not p:
                continue
            default = None
            eq = _find_top_eq(p)
            if eq >= 0:
                default = p[eq + 1:].strip()
                p = p[:eq].strip()
            star = ""
            m = re.match(r"(\*{1,2})", p)
            if m:
                star = m.group(1)
                p = p[len(star):]
            name, ctype = _decl_name(p)
            params[name] = ctype
            names.append(star + name + ("=" + default if default is not None else ""))
        return names, params

    i = 0
    while i < n:
        raw = lines[i]
        code, comment = _strip_comment(raw)
        stripped = code.strip()
        indent = len(code) - len(code.lstrip())
        if not stripped:
            i += 1
            continue

        # ---- cimport
        if re.match(r"(cimport\s|from\s+\S+\s+cimport\s)", stripped):
            info.cimports.append(stripped)
            out[i] = ""
            i += 1
            continue

        # ---- cdef extern block
        if re.match(r"cdef\s+extern\s+from\b", stripped):
            if not stripped.endswith(":"):
                raise PyxError("unsupported extern form at line %d" % (i + 1))
            out[i] = ""
            j = i + 1
            buf = ""
            while j < n:
                c2, _ = _strip_comment(lines[j])
                if c2.strip() and (len(c2) - len(c2.lstrip())) <= indent:
                    break
                out[j] = ""
                buf += " " + c2.strip()
                if c2.strip() and _depth_delta(buf) == 0:
                    m = re.match(r"\s*[\w\s\*]+?\b(" + _IDENT + r")\s*\((.*)\)\s*$", buf)
                    if not m:
                        raise PyxError("cannot parse extern prototype %r" % buf)
                    pn = []
                    for p in _split_top(m.group(2)):
                        m2 = re.search(r"(" + _IDENT + r")\s*$", p.strip())
                        pn.append(m2.group(1) if m2 else None)
                    info.externs[m.group(1)] = pn
                    buf = ""
                j += 1
            if buf.strip():
                raise PyxError("dangling extern prototype text %r" % buf)
            i = j
            continue

        # ---- cdef class
        m = re.match(r"cdef\s+class\s+(" + _IDENT + r")\s*(\(.*\))?\s*:\s*$", stripped)
        if m:
            cur_scope(indent)
            out[i] = " " * indent + "class " + m.group(1) + (m.group(2) or "") + ":" + comment
            scopes.append((indent, "class", m.group(1)))
            info.classes[m.group(1)] = {"cdef": True, "fields": {}}
            i += 1
            continue
        m = re.match(r"class\s+(" + _IDENT + r")\b", stripped)
        if m:
            cur_scope(indent)
            scopes.append((indent, "class", m.group(1)))
            info.classes[m.group(1)] = {"cdef": False, "fields": {}}
            i += 1
            continue

        # ---- cdef: block
        if re.match(r"cdef\s*:\s*$", stripped):
            cur_scope(indent + 1) if False else None
            out[i] = "" if not comment.strip() else " " * indent + comment
            j = i + 1
            while j < n:
                c2, cm2 = _strip_comment(lines[j])
                s2 = c2.strip()
                ind2 = len(c2) - len(c2.lstrip())
                if not s2:
                    j += 1
                    continue
                if ind2 <= indent:
                    break
                j = handle_decl(j, indent, indent, s2, ("  " + cm2) if cm2 else "") + 1
            i = j
            continue

        # ---- functions: cdef T f(...):, cpdef f(...):, def f(typed args):
        m = re.match(r"(cdef|cpdef|def)\b(.*)$", stripped)
        if m and "(" in stripped and not re.match(r"cdef\s+(extern|class)\b", stripped):
            kind = m.group(1)
            # gather logical line
            j = i
            buf = code
            d = _depth_delta(code)
            while d > 0:
                j += 1
                if j >= n:
                    raise PyxError("unterminated signature at line %d" % (i + 1))
                c2, _ = _strip_comment(lines[j])
                buf += " " + c2.strip()
                d += _depth_delta(c2)
            bs = buf.strip()
            if bs.endswith(":"):
                m2 = re.match(r"(cdef|cpdef|def)\s+(.*?)\b(" + _IDENT + r")\s*\((.*)\)\s*:\s*$", bs, re.S)
                if not m2:
                    raise PyxError("cannot parse function header at line %d: %r" % (i + 1, bs))
                ret = m2.group(2).strip() or None
                fname = m2.group(3)
                names, params = parse_params(m2.group(4))
                cur_scope(indent)
                out[i] = " " * indent + "def " + fname + "(" + ", ".join(names) + "):" + comment
                for k in range(i + 1, j + 1):
                    out[k] = ""
                scopes.append((indent, "function", fname))
                info.functions[".".join(s[2] for s in scopes)] = {
                    "kind": kind, "ret": ret, "params": params, "locals": {}, "line": i + 1}
                i = j + 1
                continue
            elif kind == "def":
                raise PyxError("def without ':' at line %d" % (i + 1))
            # else: a cdef one-line declaration containing '(' in an initialiser: fall through

        # ---- cdef one-liner declaration
        m = re.match(r"cdef\s+(.*)$", stripped)
        if m:
            i = handle_decl(i, indent, indent, m.group(1), ("  " + comment) if comment else "") + 1
            continue

        if re.match(r"(cpdef|ctypedef)\b", stripped):
            raise PyxError("unsupported construct at line %d: %r" % (i + 1, stripped))

        i += 1

    # ---- unary & -> ~  (on the rewritten text, code part only)
    for k, line in enumerate(out):
        code, comment = _strip_comment(line)
        if "&" not in code:
            continue
        new = ""
        q = None
        idx = 0
        while idx < len(code):
            c = code[idx]
            if q:
                new += c
                if c == "\\" and idx + 1 < len(code):
                    new += code[idx + 1]
                    idx += 2
                    continue
                if c == q:
                    q = None
            elif c in "'\"":
                q = c
                new += c
            elif c == "&":
                prev = new.rstrip()
                if prev == "" or prev[-1] in "(,":
                    new += "~"
                    info.n_addrof += 1
                else:
                    raise PyxError("binary '&' at line %d is outside the supported subset" % (k + 1))
            else:
                new += c
            idx += 1
        out[k] = new + comment

    res = "\n".join(out)
    for k, line in enumerate(out):
        s = _strip_comment(line)[0].strip()
        if re.match(r"(cdef|cpdef|ctypedef|cimport)\b", s) or re.search(r"\bcimport\b", s):
            raise PyxError("unconsumed Cython construct at line %d: %r" % (k + 1, s))
    if len(out) != len(lines):
        raise PyxError("line count changed")
    try:
        tree = ast.parse(res, filename=filename)
    except SyntaxError as e:
        raise PyxError("desugared text does not parse: %s (line %s)" % (e.msg, e.lineno))
    return res, tree, info


def _code_only(text):
    return "\n".join(_strip_comment(l)[0] for l in text.split("\n"))
