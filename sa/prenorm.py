"""Package-level normalisations that need to see every module before any of them is indexed:

1. named constants: a module-level or class-level ``_TWO_PI = 2 * np.pi`` / ``_ALPHA = 0.697`` (ALL-CAPS name, assigned exactly once, value built
   from literals, np.pi-like attributes and arithmetic) is substituted at its uses (same module, importing modules, ``cls.X`` / ``self.X`` / ``Class.X``);
2. call spelling: for callees whose signature is known (package functions and classes that are not wrapped by a signature-changing decorator, plus a
   small table of library calls the rules talk about) every call is rewritten to ONE form - parameters without a default positionally, parameters
   with a default as keywords in signature order, arguments equal to the default dropped.  Calls with * / ** or that do not bind are left alone.

Both rewrites are applied to the analysed sources and (2) also to specification expressions (norm.parse), so they only ever make two spellings of
the same call equal.
"""
import ast
import copy
import re

CONST_NAME = re.compile(r"^_{0,2}[A-Z][A-Z0-9_]*$")
# constants of the tree the rules were written for keep their names (the rules and their specifications refer to them)
KEEP_CONSTANTS = {"UNIT_ATTR_NAME"}
SAFE_ATTR_ROOTS = {"np", "numpy", "math", "u"}
TRANSPARENT_DECOS = {"staticmethod", "classmethod", "property", "quantity_input", "deprecated_renamed_argument", "wraps"}
# library calls: dotted suffix or bare attribute -> (parameters, {param: default source})
EXTERNAL = {
    "np.linspace": (["start", "stop", "num"], {"num": "50"}),
    "np.zeros": (["shape", "dtype"], {"dtype": "float"}),
    "np.full": (["shape", "fill_value", "dtype"], {"dtype": "None"}),
    "np.vander": (["x", "N", "increasing"], {"N": "None", "increasing": "False"}),
    "np.histogram": (["a", "bins"], {"bins": "10"}),
    "Time": (["val", "val2", "format", "scale"], {"val2": "None", "format": "None", "scale": "None"}),
    "u.Quantity": (["value", "unit"], {"unit": "None"}),
    "pm.Deterministic": (["name", "var"], {}),
    "np.diag": (["v", "k"], {"k": "0"}),
    "np.concatenate": (["arrays", "axis"], {"axis": "0", "**": "None"}),
    "enumerate": (["iterable", "start"], {"start": "0"}),
    ".argsort": (["axis"], {"axis": "-1", "**": "None"}),
    ".min": (["axis"], {"axis": "None", "**": "None"}),
    ".max": (["axis"], {"axis": "None", "**": "None"}),
    ".sum": (["axis"], {"axis": "None", "**": "None"}),
    ".mean": (["axis"], {"axis": "None", "**": "None"}),
    ".std": (["axis"], {"axis": "None", "**": "None"}),
    "pm.Normal": (["name", "mu", "sigma"], {"mu": "0", "sigma": "1", "**": "None"}),
    "UniformLog": (["name", "a", "b"], {"**": "None"}),
    "PolynomialRVTrend": (["coeffs", "t0"], {"t0": "None"}),
    ".uniform": (["low", "high", "size"], {"low": "0.0", "high": "1.0", "size": "None"}),
    ".to_value": (["unit", "equivalencies"], {"equivalencies": "[]"}),
    ".all": (["axis"], {"axis": "None"}),
    ".any": (["axis"], {"axis": "None"}),
}
# parameters that stay keywords although they have no default (readability conventions of the tree the rules were written for)
METHOD_BLACKLIST = {"get", "keys", "values", "items", "copy", "read", "write", "sum", "max", "min", "mean", "std", "all", "any", "sample", "dist", "logp", "pop", "update",
                    "append", "extend", "index", "count", "format", "join", "split", "close", "map", "eval", "to", "to_value", "reshape", "astype", "phase", "plot"}


def dotted(node):
    parts = []
    while isinstance(node, ast.Attribute):
        parts.append(node.attr)
        node = node.value
    if isinstance(node, ast.Name):
        parts.append(node.id)
        return ".".join(reversed(parts))
    return None


# ----------------------------------------------------------------------------------------------------------------- constants

def _const_like(e):
    if isinstance(e, ast.Constant):
        return not isinstance(e.value, (bytes,)) and e.value is not Ellipsis
    if isinstance(e, ast.UnaryOp) and isinstance(e.op, (ast.USub, ast.UAdd)):
        return _const_like(e.operand)
    if isinstance(e, ast.BinOp) and isinstance(e.op, (ast.Add, ast.Sub, ast.Mult, ast.Div, ast.Pow)):
        return _const_like(e.left) and _const_like(e.right)
    if isinstance(e, ast.Tuple):
        return all(_const_like(x) for x in e.elts)
    if isinstance(e, ast.Attribute):
        d = dotted(e)
        return bool(d) and d.split(".")[0] in SAFE_ATTR_ROOTS and d.count(".") == 1
    return False


def collect_constants(trees):
    """trees: {module name: ast.Module}.  Returns (module constants {mod: {name: expr}}, class constants {class name: {name: expr}})"""
    modc, clsc = {}, {}
    for mn, t in trees.items():
        counts = {}
        for n in ast.walk(t):
            if isinstance(n, ast.Name) and isinstance(n.ctx, (ast.Store, ast.Del)):
                counts[n.id] = counts.get(n.id, 0) + 1
            elif isinstance(n, (ast.Global, ast.Nonlocal)):
                for x in n.names:
                    counts[x] = counts.get(x, 0) + 5
        out = {}
        for s in t.body:
            if isinstance(s, ast.Assign) and len(s.targets) == 1 and isinstance(s.targets[0], ast.Name) and CONST_NAME.match(s.targets[0].id) \
                    and counts.get(s.targets[0].id) == 1 and _const_like(s.value) and s.targets[0].id not in KEEP_CONSTANTS:
                out[s.targets[0].id] = s.value
        modc[mn] = out
        for c in ast.walk(t):
            if isinstance(c, ast.ClassDef):
                cc = {}
                seen = {}
                for s in c.body:
                    if isinstance(s, ast.Assign):
                        for tg in s.targets:
                            if isinstance(tg, ast.Name):
                                seen[tg.id] = seen.get(tg.id, 0) + 1
                for s in c.body:
                    if isinstance(s, ast.Assign) and len(s.targets) == 1 and isinstance(s.targets[0], ast.Name) and CONST_NAME.match(s.targets[0].id) \
                            and seen.get(s.targets[0].id) == 1 and _const_like(s.value):
                        cc[s.targets[0].id] = s.value
                # never treated as constant if some method stores to it
                for n in ast.walk(c):
                    if isinstance(n, ast.Attribute) and isinstance(n.ctx, (ast.Store, ast.Del)) and n.attr in cc:
                        cc.pop(n.attr, None)
                if cc and c.name not in clsc:
                    clsc[c.name] = cc
    # an attribute name defined by several classes may be overridden along an inheritance chain: `cls.X` is then not a constant of the lexical class
    owners = {}
    for cn, cc in clsc.items():
        for k in cc:
            owners.setdefault(k, []).append(cn)
    for cn in list(clsc):
        clsc[cn] = {k: v for k, v in clsc[cn].items() if len(owners[k]) == 1}
    return modc, clsc


def propagate_constants(trees):
    modc, clsc = collect_constants(trees)
    # constants imported by name from sibling modules
    byname = {}
    for mn, d in modc.items():
        for k, v in d.items():
            byname.setdefault(k, []).append((mn, v))
    for mn, t in trees.items():
        env = dict(modc.get(mn, {}))
        for n in ast.walk(t):
            if isinstance(n, ast.ImportFrom) and n.level >= 1 or (isinstance(n, ast.ImportFrom) and (n.module or "").startswith("thejoker")):
                for a in n.names:
                    src = byname.get(a.name)
                    if src and len(src) == 1:
                        env[a.asname or a.name] = src[0][1]
        _subst_consts(t, env, clsc)
    return trees


def _subst_consts(tree, env, clsc):
    def local_names(fn):
        out = {a.arg for a in fn.args.posonlyargs + fn.args.args + fn.args.kwonlyargs}
        if fn.args.vararg:
            out.add(fn.args.vararg.arg)
        if fn.args.kwarg:
            out.add(fn.args.kwarg.arg)
        for n in ast.walk(fn):
            if isinstance(n, ast.Name) and isinstance(n.ctx, (ast.Store, ast.Del)):
                out.add(n.id)
        return out

    class T(ast.NodeTransformer):
        def __init__(self):
            self.shadow = [set()]
            self.cls = [None]

        def visit_ClassDef(self, n):
            self.cls.append(n.name)
            self.generic_visit(n)
            self.cls.pop()
            return n

        def visit_FunctionDef(self, n):
            self.shadow.append(self.shadow[-1] | local_names(n))
            self.generic_visit(n)
            self.shadow.pop()
            return n

        visit_AsyncFunctionDef = visit_FunctionDef

        def visit_Name(self, n):
            if isinstance(n.ctx, ast.Load) and n.id in env and n.id not in self.shadow[-1]:
                return ast.copy_location(copy.deepcopy(env[n.id]), n)
            return n

        def visit_Attribute(self, n):
            self.generic_visit(n)
            if isinstance(n.ctx, ast.Load) and isinstance(n.value, ast.Name):
                base = n.value.id
                cname = self.cls[-1] if base in ("self", "cls") else base
                cc = clsc.get(cname)
                if cc and n.attr in cc and (base in ("self", "cls") or base in clsc):
                    return ast.copy_location(copy.deepcopy(cc[n.attr]), n)
            return n
    T().visit(tree)
    ast.fix_missing_locations(tree)


# ----------------------------------------------------------------------------------------------------------------- import spellings

_ALIASES = None


def base_aliases():
    """{module path: {fully qualified name: the local spelling the tree the rules were written for uses}} (sa/inventory.json)"""
    global _ALIASES
    if _ALIASES is None:
        import json, os
        with open(os.path.join(os.path.dirname(__file__), "inventory.json")) as f:
            _ALIASES = json.load(f).get("import_aliases", {})
    return _ALIASES


def canonical_imports(tree, relpath):
    """`from astropy.utils.metadata import merge; merge(..)`  ->  `metadata.merge(..)` when the module used to reach that object as `metadata.merge`;
    `import numpy; numpy.x` -> `np.x`.  Every name bound by an import of a library object is rewritten to the spelling of the frozen alias table
    (longest qualified-name prefix); names whose spelling already agrees, package-internal imports and unknown libraries are left alone."""
    base = dict(base_aliases().get(relpath, {}))
    # common library aliases are the same in every module of the package
    for m in base_aliases().values():
        for fq, al in m.items():
            if fq in ("numpy", "astropy.units", "pymc", "tables", "h5py", "os", "copy", "warnings") and fq not in base:
                base[fq] = al
    if not base:
        return tree
    local = {}   # local name -> fully qualified
    for n in ast.walk(tree):
        if isinstance(n, ast.Import):
            for a in n.names:
                if a.asname:
                    local[a.asname] = a.name
                else:
                    local[a.name.split(".")[0]] = a.name.split(".")[0]
        elif isinstance(n, ast.ImportFrom) and n.level == 0 and n.module and not n.module.startswith("thejoker"):
            for a in n.names:
                local[a.asname or a.name] = n.module + "." + a.name
    ren = {}
    for name, fq in local.items():
        best = None
        for bfq, al in base.items():
            if (fq == bfq or fq.startswith(bfq + ".")) and (best is None or len(bfq) > len(best[0])):
                best = (bfq, al)
        if best is None:
            continue
        spelled = best[1] + fq[len(best[0]):]
        if spelled != name:
            ren[name] = spelled
    if not ren:
        return tree
    shadow = set()
    for n in ast.walk(tree):
        if isinstance(n, ast.Name) and isinstance(n.ctx, (ast.Store, ast.Del)):
            shadow.add(n.id)
        elif isinstance(n, ast.arg):
            shadow.add(n.arg)
    ren = {k: v for k, v in ren.items() if k not in shadow}

    class T(ast.NodeTransformer):
        def visit_Name(self, n):
            if isinstance(n.ctx, ast.Load) and n.id in ren:
                return ast.copy_location(ast.parse(ren[n.id], mode="eval").body, n)
            return n
    T().visit(tree)
    ast.fix_missing_locations(tree)
    return tree


# ----------------------------------------------------------------------------------------------------------------- column accessors

def column_accessors(tree):
    """Inside a class whose `__getitem__` returns `self.tbl[key]` for string keys that are column names and whose `par_names` is `self.tbl.colnames`
    (JokerSamples), `self.tbl[<string literal>]` and `self[<string literal>]` are the same column (or the same KeyError): loads are written `self[..]`.
    Applied only when both facts are found in the class, so a change of `__getitem__` switches the rewrite off."""
    for c in ast.walk(tree):
        if not isinstance(c, ast.ClassDef):
            continue
        meths = {m.name: m for m in c.body if isinstance(m, ast.FunctionDef)}
        gi, pn = meths.get("__getitem__"), meths.get("par_names")
        if gi is None or pn is None or len(gi.args.args) != 2:
            continue
        key = gi.args.args[1].arg
        ok_gi = False
        for st in gi.body:
            if isinstance(st, ast.If) and len(st.body) == 1 and isinstance(st.body[0], ast.Return) and ast.unparse(st.body[0].value) == "self.tbl[%s]" % key \
                    and ast.unparse(st.test) in ("isinstance(%s, str) and %s in self.par_names" % (key, key), "isinstance(%s, str) and %s in self.tbl.colnames" % (key, key)):
                ok_gi = True
        ok_pn = any(isinstance(st, ast.Return) and ast.unparse(st.value) == "self.tbl.colnames" for st in pn.body)
        if not (ok_gi and ok_pn):
            continue

        class T(ast.NodeTransformer):
            def visit_Subscript(self, n):
                self.generic_visit(n)
                if isinstance(n.ctx, ast.Load) and isinstance(n.slice, ast.Constant) and isinstance(n.slice.value, str) \
                        and isinstance(n.value, ast.Attribute) and n.value.attr == "tbl" and isinstance(n.value.value, ast.Name) and n.value.value.id == "self":
                    n.value = n.value.value
                return n
        for nm, m in meths.items():
            if nm in ("__getitem__", "__setitem__", "__init__"):
                continue
            T().visit(m)
    return tree


# ----------------------------------------------------------------------------------------------------------------- call spelling

REGISTRY = {}
NAMEDTUPLES = {}   # type name -> (field names, {field: default expr})


def collect_namedtuples(trees):
    """module-level `X = namedtuple("X", fields)` / `X = NamedTuple("X", [(f, T), ...])` / `class X(NamedTuple): f: T [= d]` definitions of the package"""
    out = {}
    for t in trees.values():
        for s in t.body:
            if isinstance(s, ast.Assign) and len(s.targets) == 1 and isinstance(s.targets[0], ast.Name) and isinstance(s.value, ast.Call):
                d = (dotted(s.value.func) or "").split(".")[-1]
                a = s.value.args
                if d == "namedtuple" and len(a) >= 2:
                    f = a[1]
                    fields = None
                    if isinstance(f, ast.Constant) and isinstance(f.value, str):
                        fields = f.value.replace(",", " ").split()
                    elif isinstance(f, (ast.List, ast.Tuple)) and all(isinstance(e, ast.Constant) and isinstance(e.value, str) for e in f.elts):
                        fields = [e.value for e in f.elts]
                    dk = [k.value for k in s.value.keywords if k.arg == "defaults"]
                    dflt = {}
                    if fields and dk and isinstance(dk[0], (ast.List, ast.Tuple)):
                        for nm, dv in zip(fields[len(fields) - len(dk[0].elts):], dk[0].elts):
                            dflt[nm] = dv
                    if fields:
                        out[s.targets[0].id] = (fields, dflt)
                elif d == "NamedTuple" and len(a) == 2 and isinstance(a[1], (ast.List, ast.Tuple)):
                    fields = [e.elts[0].value for e in a[1].elts if isinstance(e, ast.Tuple) and e.elts and isinstance(e.elts[0], ast.Constant)]
                    if len(fields) == len(a[1].elts):
                        out[s.targets[0].id] = (fields, {})
            elif isinstance(s, ast.ClassDef) and any((dotted(b) or "").split(".")[-1] == "NamedTuple" for b in s.bases):
                fields, dflt = [], {}
                ok = True
                for m in s.body:
                    if isinstance(m, ast.AnnAssign) and isinstance(m.target, ast.Name):
                        fields.append(m.target.id)
                        if m.value is not None:
                            dflt[m.target.id] = m.value
                    elif isinstance(m, ast.FunctionDef):
                        ok = False   # methods: not a plain record
                if ok and fields:
                    out[s.name] = (fields, dflt)
    return out


def lower_namedtuples(fn):
    """Records are tuples: within one function, a name whose every binding is a constructor call of ONE namedtuple type (or None, or another such name)
    has its `.field` accesses turned into constant subscripts, and the constructor calls become tuple displays (fields in declaration order, defaults
    filled in).  Returns True if anything changed."""
    if not NAMEDTUPLES:
        return False
    ctor = {}
    for n in ast.walk(fn):
        if isinstance(n, ast.Call) and isinstance(n.func, ast.Name) and n.func.id in NAMEDTUPLES:
            fields, dflt = NAMEDTUPLES[n.func.id]
            b = bind(n, (fields, dflt))
            if b is not None:
                ctor[id(n)] = (n, n.func.id, [b.get(f, dflt.get(f)) for f in fields])
    if not ctor:
        return False
    binds = {}
    for n in ast.walk(fn):
        if isinstance(n, ast.Assign) and len(n.targets) == 1 and isinstance(n.targets[0], ast.Name):
            binds.setdefault(n.targets[0].id, []).append(n.value)
        elif isinstance(n, (ast.For, ast.AugAssign, ast.AnnAssign, ast.NamedExpr, ast.With, ast.comprehension)) or (isinstance(n, ast.Assign) and not (len(n.targets) == 1 and isinstance(n.targets[0], ast.Name))):
            for x in ast.walk(n.target if hasattr(n, "target") else ast.Tuple(elts=list(getattr(n, "targets", [])) + [i.optional_vars for i in getattr(n, "items", []) if i.optional_vars is not None], ctx=ast.Store())):
                if isinstance(x, ast.Name) and isinstance(x.ctx, ast.Store):
                    binds.setdefault(x.id, []).append(None)
    params = {a.arg for a in fn.args.args + fn.args.kwonlyargs + fn.args.posonlyargs}
    typ = {}
    changed = True
    while changed:
        changed = False
        for name, vals in binds.items():
            if name in typ or name in params:
                continue
            ts = set()
            ok = True
            for v in vals:
                if v is None:
                    ok = False
                elif id(v) in ctor:
                    ts.add(ctor[id(v)][1])
                elif isinstance(v, ast.Constant) and v.value is None:
                    continue
                elif isinstance(v, ast.Name) and v.id in typ:
                    ts.add(typ[v.id])
                elif isinstance(v, ast.Name) and v.id in binds and v.id not in params:
                    ok = False   # not known yet (maybe next round)
                else:
                    ok = False
            if ok and len(ts) == 1:
                typ[name] = next(iter(ts))
                changed = True
    did = False
    for n in ast.walk(fn):
        if isinstance(n, ast.Attribute) and isinstance(n.ctx, ast.Load) and isinstance(n.value, ast.Name) and n.value.id in typ and n.attr in NAMEDTUPLES[typ[n.value.id]][0]:
            idx = NAMEDTUPLES[typ[n.value.id]][0].index(n.attr)
            v = n.value
            n.__class__ = ast.Subscript
            del n.attr
            n.value, n.slice, n.ctx = v, ast.Constant(value=idx), ast.Load()
            did = True
        elif isinstance(n, ast.Attribute) and isinstance(n.ctx, ast.Load) and id(n.value) in ctor and n.attr in NAMEDTUPLES[ctor[id(n.value)][1]][0]:
            idx = NAMEDTUPLES[ctor[id(n.value)][1]][0].index(n.attr)
            v = n.value
            n.__class__ = ast.Subscript
            del n.attr
            n.value, n.slice, n.ctx = v, ast.Constant(value=idx), ast.Load()
            did = True
    for _, (n, tname, vals) in ctor.items():
        if any(v is None for v in vals):
            continue
        for k in ("func", "args", "keywords"):
            delattr(n, k)
        n.__class__ = ast.Tuple
        n.elts, n.ctx = vals, ast.Load()
        did = True
    if did:
        ast.fix_missing_locations(fn)
    return did


def build_registry(trees):
    """{callee key: (params, defaults {name: ast expr})}; keys: bare function / class name, '.method' for unambiguous method names"""
    reg = {}
    amb = set()

    def add(key, params, defaults):
        if key in reg or key in amb:
            reg.pop(key, None)
            amb.add(key)
        else:
            reg[key] = (params, defaults)

    def sig(fn, skip_first):
        a = fn.args
        if a.vararg is not None or a.posonlyargs:
            return None
        pos = [x.arg for x in a.args]
        if skip_first:
            pos = pos[1:]
        dflt = {}
        names = [x.arg for x in a.args]
        for nme, d in zip(names[len(names) - len(a.defaults):], a.defaults):
            dflt[nme] = d
        for x, d in zip(a.kwonlyargs, a.kw_defaults):
            if d is None:
                return None
            pos.append(x.arg)
            dflt[x.arg] = d
        if a.kwarg is not None:
            dflt["**"] = None   # marker: further keywords are accepted and passed on
        return pos, dflt

    def plain(fn):
        for d in fn.decorator_list:
            nm = (dotted(d) or dotted(getattr(d, "func", None)) or "").split(".")[-1]
            if nm not in TRANSPARENT_DECOS:
                return False
        return True

    for mn, t in trees.items():
        for s in t.body:
            if isinstance(s, ast.FunctionDef) and plain(s):
                sg = sig(s, False)
                if sg:
                    add(s.name, *sg)
            elif isinstance(s, ast.ClassDef):
                for m in s.body:
                    if isinstance(m, ast.FunctionDef) and plain(m):
                        static = any((dotted(d) or "") == "staticmethod" for d in m.decorator_list)
                        sg = sig(m, not static)
                        if not sg:
                            continue
                        if m.name == "__init__":
                            add(s.name, *sg)
                        elif not (m.name.startswith("__") and m.name.endswith("__")) and m.name not in METHOD_BLACKLIST:
                            add("." + m.name, *sg)
    for k, (params, dflt) in EXTERNAL.items():
        if k not in reg and k not in amb:
            reg[k] = (params, {p: ast.parse(v, mode="eval").body for p, v in dflt.items()})
    return reg


def lookup(call, reg=None):
    reg = REGISTRY if reg is None else reg
    f = call.func
    if isinstance(f, ast.Name):
        return reg.get(f.id)
    if isinstance(f, ast.Attribute):
        d = dotted(f)
        if d:
            for k in (d, ".".join(d.split(".")[-2:])):
                if k in reg and not k.startswith("."):
                    # a dotted library name, or Class.method is not registered under the bare name
                    if "." in k:
                        return reg[k]
            if d.split(".")[0] in ("np", "numpy", "pm", "pt", "tt", "u", "math", "os", "tb", "h5py"):
                return None
        return reg.get("." + f.attr)
    return None


def bind(call, sg):
    """{param: expr} for the explicitly passed arguments, or None if the call does not bind"""
    params, dflt = sg
    if any(isinstance(a, ast.Starred) for a in call.args) or any(k.arg is None for k in call.keywords):
        return None
    if len(call.args) > len(params):
        return None
    out = {}
    for p, a in zip(params, call.args):
        out[p] = a
    for k in call.keywords:
        if k.arg in out:
            return None
        if k.arg not in params:
            if "**" in dflt:
                continue
            return None
        out[k.arg] = k.value
    for p in params:
        if p not in out and p not in dflt:
            return None
    return out


def _same(a, b):
    try:
        return ast.dump(a) == ast.dump(b) or (isinstance(a, ast.Constant) and isinstance(b, ast.Constant) and a.value == b.value and type(a.value) is type(b.value)) \
            or (isinstance(a, ast.Constant) and isinstance(b, ast.Constant) and isinstance(a.value, (int, float)) and isinstance(b.value, (int, float))
                and not isinstance(a.value, bool) and not isinstance(b.value, bool) and a.value == b.value)
    except Exception:
        return False


class _Calls(ast.NodeTransformer):
    def __init__(self, reg):
        self.reg = reg

    def visit_Call(self, n):
        self.generic_visit(n)
        sg = lookup(n, self.reg)
        if sg is None:
            return n
        b = bind(n, sg)
        if b is None:
            return n
        params, dflt = sg
        args, kws = [], []
        for p in params:
            if p not in dflt:
                args.append(b[p])
            elif p in b and not _same(b[p], dflt[p]):
                kws.append(ast.keyword(arg=p, value=b[p]))
        kws += [k for k in n.keywords if k.arg not in params]   # keywords swallowed by **kwargs stay as they are
        n.args, n.keywords = args, kws
        return n


def normalize_calls(tree, reg=None):
    reg = REGISTRY if reg is None else reg
    if not reg:
        return tree
    _Calls(reg).visit(tree)
    ast.fix_missing_locations(tree)
    return tree


def arg_of(call, name):
    """the argument bound to parameter ``name`` of a call with a known signature (None if unknown / not passed)"""
    sg = lookup(call)
    if sg is None:
        return None
    b = bind(call, sg)
    return None if b is None else b.get(name)
