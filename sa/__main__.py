"""CLI:  python -m sa <ID> --tier quick|thorough | selftest [-j N] | explain <replay.json>"""
import argparse
import importlib
import json
import os
import sys
import traceback

from .loader import Program, AnalysisIncomplete
from .report import Ctx

PROPS = ["C%02d" % i for i in range(1, 20)]


def run_property(pid, tier, prog=None, quiet=False, write=True, finish=True):
    """Returns (exit code, ctx)."""
    try:
        prog = prog or Program()
    except AnalysisIncomplete as e:
        if not quiet:
            print("ANALYSIS-INCOMPLETE property=%s rule=%s site=%s reason=%s" % (pid, e.rule, e.site, e.reason))
        return 2, None
    ctx = Ctx(pid, tier, prog, quiet=quiet)
    try:
        mod = importlib.import_module("sa.rules." + pid)
        mod.run(ctx)
    except AnalysisIncomplete as e:
        ctx.incomplete_(e.rule, e.site, e.reason)
    except Exception as e:  # internal error: never a pass, never a violation claim
        if not quiet:
            traceback.print_exc()
            print("ANALYSIS-ERROR property=%s %s: %s" % (pid, type(e).__name__, e))
        ctx.incomplete_("INTERNAL", "analyser", "%s: %s" % (type(e).__name__, e))
    if not finish:
        return None, ctx
    code = ctx.finish(write=write)
    return code, ctx


def main(argv=None):
    argv = list(sys.argv[1:] if argv is None else argv)
    if argv and argv[0] == "selftest":
        from .selftest import runner
        return runner.main(argv[1:])
    if argv and argv[0] == "explain":
        with open(argv[1]) as f:
            r = json.load(f)
        print(json.dumps(r, indent=1))
        code, ctx = run_property(r["property"], r.get("tier", "quick"), quiet=True, write=False)
        key = r["finding"]["key"]
        still = ctx is not None and any(o.key == key and o.verdict == "violated" for o in ctx.obls)
        print("finding %s on the current tree: %s" % (key, "STILL PRESENT" if still else "not present"))
        return 1 if still else 0
    ap = argparse.ArgumentParser(prog="check")
    ap.add_argument("property")
    ap.add_argument("--tier", default=os.environ.get("VERIF_TIER", "quick"), choices=["quick", "thorough"])
    a = ap.parse_args(argv)
    if a.property not in PROPS:
        print("unknown property %s" % a.property)
        return 2
    if a.tier == "quick":
        code, ctx = run_property(a.property, a.tier)
        return code
    # thorough = quick rules + the slice of the mutation / twin corpus that exercises this property's rules + every confirmed seeded change
    # of this property (must be reported by one of its rules) + every behaviour-preserving refactoring patch (this property's check must stay
    # silent), all as in-memory overlays of the CURRENT tree; an entry that no longer applies to the tree is counted not-applicable
    code, ctx = run_property(a.property, a.tier, finish=False)
    if ctx is None:
        return code
    from .selftest import runner
    entries, results = runner.run_for_property_full(a.property)
    fails = runner.summarize(entries, results, verbose=False)
    ctx.notes.append({"selftest": {"entries": len(entries), "ok": sum(r[1] == "ok" for r in results),
                                   "not_applicable": sum(r[1] == "n/a" for r in results), "failed": len(fails),
                                   "mutants": sum(e["kind"] == "M" for e in entries), "twins": sum(e["kind"] == "T" for e in entries),
                                   "detail": [{"kind": e["kind"], "name": e["name"], "rule": e["rule"], "result": r[1], "info": r[2][:160]}
                                              for e, r in zip(entries, results)]}})
    for e, r in fails:
        print("SELFTEST-FAILURE %s %s %s: %s" % (e["prop"], e["kind"], e["name"], r[2]))
        ctx.incomplete_("SELFTEST", e["name"], "checker self-test failed (%s): %s" % (e["kind"], r[2][:200]))
    return ctx.finish()


if __name__ == "__main__":
    sys.exit(main())
