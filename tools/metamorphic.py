#!/usr/bin/env python3
"""Automated behaviour-preserving source transformations used as a false-alarm regression test (complements tools/rename_twins.py and the
sub-agents' refactoring patches).  Each transformation is applied to one Python module of the package at a time as an in-memory overlay, all 19
checks are run, and every exit code other than 0 is a false alarm.

  ifswap    `if c: A else: B`           -> `if not c: B else: A`                  (both branches present, not an elif chain)
  kwargs    f(a, b)  of package functions -> f(p=a, q=b)  (all-keyword spelling)   / posargs: the reverse where the call is all-keyword
  temps     f(g(x), y)                  -> _mt1 = g(x); f(_mt1, y)                (for simple statements: argument expressions named first)
  rettemp   return E                    -> _rt = E; return _rt
  elsedrop  if c: ..return  else: REST  -> if c: ..return ; REST
  posargs   f(p=a, q=b)                 -> f(a, b) when the keywords are a prefix of the signature
  commute   a + b, a * b                -> b + a, b * a                           (exactly commutative for two floating-point / array operands)
"""
import ast, os, sys, copy
sys.path.insert(0, "/verif")
from sa.loader import Program, repo_root
from sa.__main__ import run_property, PROPS
from sa.report import load_known

ROOT = repo_root()


def package_signatures():
    sigs = {}
    amb = set()
    for dp, dns, fns in os.walk(os.path.join(ROOT, "thejoker")):
        dns[:] = [d for d in dns if d not in ("tests", "__pycache__")]
        for f in fns:
            if not f.endswith(".py"):
                continue
            t = ast.parse(open(os.path.join(dp, f), encoding="utf-8").read())
            for s in t.body:
                if isinstance(s, ast.FunctionDef) and not s.decorator_list and not s.args.vararg and not s.args.kwarg and not s.args.posonlyargs:
                    if s.name in sigs:
                        amb.add(s.name)
                    sigs[s.name] = [a.arg for a in s.args.args]
    for a in amb:
        sigs.pop(a, None)
    return sigs


class IfSwap(ast.NodeTransformer):
    def __init__(self):
        self.n = 0

    def visit_If(self, n):
        self.generic_visit(n)
        if n.orelse and not (len(n.orelse) == 1 and isinstance(n.orelse[0], ast.If)):
            self.n += 1
            return ast.copy_location(ast.If(test=ast.UnaryOp(op=ast.Not(), operand=n.test), body=n.orelse, orelse=n.body), n)
        return n


class Kwargs(ast.NodeTransformer):
    def __init__(self, sigs):
        self.sigs, self.n = sigs, 0

    def visit_Call(self, n):
        self.generic_visit(n)
        if isinstance(n.func, ast.Name) and n.func.id in self.sigs and n.args and not any(isinstance(a, ast.Starred) for a in n.args) and not any(k.arg is None for k in n.keywords):
            params = self.sigs[n.func.id]
            if len(n.args) <= len(params) and not ({k.arg for k in n.keywords} & set(params[:len(n.args)])):
                n.keywords = [ast.keyword(arg=p, value=a) for p, a in zip(params, n.args)] + n.keywords
                n.args = []
                self.n += 1
        return n


class Commute(ast.NodeTransformer):
    def __init__(self):
        self.n = 0

    def visit_BinOp(self, n):
        self.generic_visit(n)
        # strings / lists concatenate with +: only commute when neither operand can be a sequence literal or an f-string, and not inside subscripts of strings
        if isinstance(n.op, ast.Mult) and not any(isinstance(x, (ast.List, ast.Tuple, ast.Constant, ast.JoinedStr)) and not isinstance(getattr(x, "value", 0), (int, float)) for x in (n.left, n.right)) \
                and not any(isinstance(x, (ast.List, ast.Tuple, ast.JoinedStr, ast.ListComp)) for x in (n.left, n.right)):
            n.left, n.right = n.right, n.left
            self.n += 1
        return n


def temps(tree):
    """name the positional call arguments of simple expression / assignment statements first"""
    count = 0
    k = [0]

    def do_block(stmts):
        nonlocal count
        out = []
        for s in stmts:
            for f in ("body", "orelse", "finalbody"):
                sub = getattr(s, f, None)
                if isinstance(sub, list) and sub and isinstance(sub[0], ast.stmt) and not isinstance(s, ast.ClassDef):
                    setattr(s, f, do_block(sub))
            if isinstance(s, ast.Try):
                for h in s.handlers:
                    h.body = do_block(h.body)
            if isinstance(s, ast.ClassDef):
                s.body = do_block_class(s.body)
            call = s.value if isinstance(s, (ast.Assign, ast.Expr, ast.Return)) and isinstance(getattr(s, "value", None), ast.Call) else None
            if call is not None and not any(isinstance(a, ast.Starred) for a in call.args):
                pre = []
                for i, a in enumerate(call.args):
                    if isinstance(a, (ast.Call, ast.BinOp, ast.Subscript)) and not any(isinstance(x, (ast.Yield, ast.Await, ast.NamedExpr, ast.Lambda, ast.GeneratorExp)) for x in ast.walk(a)):
                        # evaluation order: only the FIRST such argument with nothing impure before it (keeps left-to-right order)
                        if any(isinstance(b, ast.Call) for b in call.args[:i]) or isinstance(call.func, ast.Attribute) and isinstance(call.func.value, ast.Call):
                            break
                        k[0] += 1
                        nm = "_mt%d" % k[0]
                        pre.append(ast.copy_location(ast.Assign(targets=[ast.Name(id=nm, ctx=ast.Store())], value=a), s))
                        call.args[i] = ast.Name(id=nm, ctx=ast.Load())
                        count += 1
                        break
                out.extend(pre)
            out.append(s)
        return out

    def do_block_class(stmts):
        for s in stmts:
            if isinstance(s, ast.FunctionDef):
                s.body = do_block(s.body)
        return stmts
    for s in tree.body:
        if isinstance(s, ast.FunctionDef):
            s.body = do_block(s.body)
        elif isinstance(s, ast.ClassDef):
            do_block_class(s.body)
    return count


class RetTemp(ast.NodeTransformer):
    """return E -> _rt = E; return _rt"""
    def __init__(self):
        self.n = 0

    def _block(self, stmts):
        out = []
        for s in stmts:
            if isinstance(s, ast.Return) and s.value is not None and not isinstance(s.value, (ast.Name, ast.Constant)):
                self.n += 1
                nm = "_rt%d" % self.n
                out.append(ast.copy_location(ast.Assign(targets=[ast.Name(id=nm, ctx=ast.Store())], value=s.value), s))
                out.append(ast.copy_location(ast.Return(value=ast.Name(id=nm, ctx=ast.Load())), s))
            else:
                out.append(s)
        return out

    def generic_visit(self, node):
        super().generic_visit(node)
        for f in ("body", "orelse", "finalbody"):
            sub = getattr(node, f, None)
            if isinstance(sub, list) and sub and isinstance(sub[0], ast.stmt):
                setattr(node, f, self._block(sub))
        return node


class ElseDrop(ast.NodeTransformer):
    """if c: ...return/raise  else: REST   ->   if c: ...return/raise ; REST"""
    def __init__(self):
        self.n = 0

    def _term(self, body):
        return bool(body) and isinstance(body[-1], (ast.Return, ast.Raise, ast.Continue, ast.Break))

    def _block(self, stmts):
        out = []
        for s in stmts:
            if isinstance(s, ast.If) and s.orelse and self._term(s.body) and not (len(s.orelse) == 1 and isinstance(s.orelse[0], ast.If)):
                rest = s.orelse
                s.orelse = []
                out.append(s)
                out.extend(rest)
                self.n += 1
            else:
                out.append(s)
        return out

    def generic_visit(self, node):
        super().generic_visit(node)
        for f in ("body", "orelse", "finalbody"):
            sub = getattr(node, f, None)
            if isinstance(sub, list) and sub and isinstance(sub[0], ast.stmt):
                setattr(node, f, self._block(sub))
        return node


class PosArgs(ast.NodeTransformer):
    """f(p=a, q=b) -> f(a, b) for package functions when the keywords are a prefix of the signature in order"""
    def __init__(self, sigs):
        self.sigs, self.n = sigs, 0

    def visit_Call(self, n):
        self.generic_visit(n)
        if isinstance(n.func, ast.Name) and n.func.id in self.sigs and n.keywords and not any(isinstance(a, ast.Starred) for a in n.args) and not any(k.arg is None for k in n.keywords):
            params = self.sigs[n.func.id]
            k = len(n.args)
            moved = 0
            while n.keywords and k < len(params) and n.keywords[0].arg == params[k]:
                n.args.append(n.keywords.pop(0).value)
                k += 1
                moved += 1
            if moved:
                self.n += 1
        return n


def transform(text, kind, sigs):
    tree = ast.parse(text)
    if kind == "ifswap":
        t = IfSwap()
        tree = t.visit(tree)
        n = t.n
    elif kind == "kwargs":
        t = Kwargs(sigs)
        tree = t.visit(tree)
        n = t.n
    elif kind == "commute":
        t = Commute()
        tree = t.visit(tree)
        n = t.n
    elif kind == "temps":
        n = temps(tree)
    elif kind == "rettemp":
        t = RetTemp()
        tree = t.visit(tree)
        n = t.n
    elif kind == "elsedrop":
        t = ElseDrop()
        tree = t.visit(tree)
        n = t.n
    elif kind == "posargs":
        t = PosArgs(sigs)
        tree = t.visit(tree)
        n = t.n
    else:
        raise SystemExit("unknown transformation " + kind)
    ast.fix_missing_locations(tree)
    return ast.unparse(tree) + "\n", n


def main():
    kinds = sys.argv[1:] or ["ifswap", "kwargs", "posargs", "temps", "rettemp", "elsedrop", "commute"]
    known = {k["key"] for k in load_known() if k.get("status") == "known"}
    sigs = package_signatures()
    paths = []
    for dp, dns, fns in os.walk(os.path.join(ROOT, "thejoker")):
        dns[:] = [d for d in dns if d not in ("tests", "__pycache__")]
        for f in sorted(fns):
            if f.endswith(".py"):
                paths.append(os.path.relpath(os.path.join(dp, f), ROOT))
    bad = 0
    total = 0
    for kind in kinds:
        for rel in sorted(paths):
            text = open(os.path.join(ROOT, rel), encoding="utf-8").read()
            new, cnt = transform(text, kind, sigs)
            if cnt == 0:
                continue
            total += 1
            prog = Program(root=ROOT, overlay={rel: new})
            alarms = []
            for pid in PROPS:
                code, ctx = run_property(pid, "quick", prog, quiet=True, write=False)
                if code != 0:
                    det = [] if ctx is None else [(o.rule, o.verdict, o.instance[:70], o.reason[:120]) for o in ctx.obls if (o.verdict == "violated" and o.key not in known) or o.verdict == "undecided"]
                    alarms.append((pid, code, det, [] if ctx is None else ctx.incomplete))
            print("%s %-8s %s (%d sites)" % ("ALARM" if alarms else "ok", kind, rel, cnt))
            if alarms:
                bad += 1
            for pid, code, det, inc in alarms:
                print("    ", pid, "exit", code)
                for d in det[:5]:
                    print("        ", d)
                for i in inc[:3]:
                    print("        incomplete:", i)
    print("%d transformed modules, %d with alarms" % (total, bad))
    return 1 if bad else 0


if __name__ == "__main__":
    sys.exit(main())
