#!/usr/bin/env python3
"""Automated behaviour-preserving source transformations used as a false-alarm regression test (complements tools/rename_twins.py and the
sub-agents' refactoring patches).  Each transformation is applied to one Python module of the package at a time as an in-memory overlay, all 19
checks are run, and every exit code other than 0 is a false alarm.

  ifswap    `if c: A else: B`           -> `if not c: B else: A`                  (both branches present, not an elif chain)
  kwargs    f(a, b)  of package functions -> f(p=a, q=b)  (all-keyword spelling)   / posargs: the reverse where the call is all-keyword
  temps     f(g(x), y)                  -> _mt1 = g(x); f(_mt1, y)                (for simple statements: argument expressions named first)
  rettemp   return E                    -> _rt = E; return _rt
  elsedrop  if c: ..return  else: REST  -> if c: ..return ; REST
  posargs   f(p=a, q=b)                 -> f(a, b) when the keywords are a prefix of the signature
  commute   a + b, a * b                -> b + a, b * a                           (exactly commutative for two floating-point / array operands)
  kwsort    f(x, b=1, a=2)              -> f(x, a=2, b=1)                         (keyword values without calls: no evaluation-order effect)
  tupleassign  a = X; b = Y             -> a, b = X, Y                            (adjacent, single name targets, Y does not read a)
  withmerge with A: with B: BODY        -> with A, B: BODY
  demorgan  if a and b / a or b         -> if not (not a or not b) / not (not a and not b)
  guardsplit  if a and b: BODY          -> if a: if b: BODY                       (no else)
  comp2loop x = [E for v in IT if c]    -> x = []; for v in IT: if c: x.append(E) (comprehension variable renamed: it becomes a function local)
  loop2comp x = []; for v in IT: x.append(E) -> x = [E for v in IT]               (v not used outside the loop)
  stmt2ifexp  if c: x = A else: x = B   -> x = A if c else B
  cmpflip   a < b, a == b               -> b > a, b == a
"""
import ast, os, sys, copy
sys.path.insert(0, "/verif")
from sa.loader import Program, repo_root
from sa.__main__ import run_property, PROPS
from sa.report import load_known

ROOT = repo_root()


def package_signatures():
    sigs = {}
    amb = set()
    for dp, dns, fns in os.walk(os.path.join(ROOT, "thejoker")):
        dns[:] = [d for d in dns if d not in ("tests", "__pycache__")]
        for f in fns:
            if not f.endswith(".py"):
                continue
            t = ast.parse(open(os.path.join(dp, f), encoding="utf-8").read())
            for s in t.body:
                if isinstance(s, ast.FunctionDef) and not s.decorator_list and not s.args.vararg and not s.args.kwarg and not s.args.posonlyargs:
                    if s.name in sigs:
                        amb.add(s.name)
                    sigs[s.name] = [a.arg for a in s.args.args]
    for a in amb:
        sigs.pop(a, None)
    return sigs


class IfSwap(ast.NodeTransformer):
    def __init__(self):
        self.n = 0

    def visit_If(self, n):
        self.generic_visit(n)
        if n.orelse and not (len(n.orelse) == 1 and isinstance(n.orelse[0], ast.If)):
            self.n += 1
            return ast.copy_location(ast.If(test=ast.UnaryOp(op=ast.Not(), operand=n.test), body=n.orelse, orelse=n.body), n)
        return n


class Kwargs(ast.NodeTransformer):
    def __init__(self, sigs):
        self.sigs, self.n = sigs, 0

    def visit_Call(self, n):
        self.generic_visit(n)
        if isinstance(n.func, ast.Name) and n.func.id in self.sigs and n.args and not any(isinstance(a, ast.Starred) for a in n.args) and not any(k.arg is None for k in n.keywords):
            params = self.sigs[n.func.id]
            if len(n.args) <= len(params) and not ({k.arg for k in n.keywords} & set(params[:len(n.args)])):
                n.keywords = [ast.keyword(arg=p, value=a) for p, a in zip(params, n.args)] + n.keywords
                n.args = []
                self.n += 1
        return n


class Commute(ast.NodeTransformer):
    def __init__(self):
        self.n = 0

    def visit_BinOp(self, n):
        self.generic_visit(n)
        # strings / lists concatenate with +: only commute when neither operand can be a sequence literal or an f-string, and not inside subscripts of strings
        if isinstance(n.op, ast.Mult) and not any(isinstance(x, (ast.List, ast.Tuple, ast.Constant, ast.JoinedStr)) and not isinstance(getattr(x, "value", 0), (int, float)) for x in (n.left, n.right)) \
                and not any(isinstance(x, (ast.List, ast.Tuple, ast.JoinedStr, ast.ListComp)) for x in (n.left, n.right)):
            n.left, n.right = n.right, n.left
            self.n += 1
        return n


def temps(tree):
    """name the positional call arguments of simple expression / assignment statements first"""
    count = 0
    k = [0]

    def do_block(stmts):
        nonlocal count
        out = []
        for s in stmts:
            for f in ("body", "orelse", "finalbody"):
                sub = getattr(s, f, None)
                if isinstance(sub, list) and sub and isinstance(sub[0], ast.stmt) and not isinstance(s, ast.ClassDef):
                    setattr(s, f, do_block(sub))
            if isinstance(s, ast.Try):
                for h in s.handlers:
                    h.body = do_block(h.body)
            if isinstance(s, ast.ClassDef):
                s.body = do_block_class(s.body)
            call = s.value if isinstance(s, (ast.Assign, ast.Expr, ast.Return)) and isinstance(getattr(s, "value", None), ast.Call) else None
            if call is not None and not any(isinstance(a, ast.Starred) for a in call.args):
                pre = []
                for i, a in enumerate(call.args):
                    if isinstance(a, (ast.Call, ast.BinOp, ast.Subscript)) and not any(isinstance(x, (ast.Yield, ast.Await, ast.NamedExpr, ast.Lambda, ast.GeneratorExp)) for x in ast.walk(a)):
                        # evaluation order: only the FIRST such argument with nothing impure before it (keeps left-to-right order)
                        if any(isinstance(b, ast.Call) for b in call.args[:i]) or isinstance(call.func, ast.Attribute) and isinstance(call.func.value, ast.Call):
                            break
                        k[0] += 1
                        nm = "_mt%d" % k[0]
                        pre.append(ast.copy_location(ast.Assign(targets=[ast.Name(id=nm, ctx=ast.Store())], value=a), s))
                        call.args[i] = ast.Name(id=nm, ctx=ast.Load())
                        count += 1
                        break
                out.extend(pre)
            out.append(s)
        return out

    def do_block_class(stmts):
        for s in stmts:
            if isinstance(s, ast.FunctionDef):
                s.body = do_block(s.body)
        return stmts
    for s in tree.body:
        if isinstance(s, ast.FunctionDef):
            s.body = do_block(s.body)
        elif isinstance(s, ast.ClassDef):
            do_block_class(s.body)
    return count


class RetTemp(ast.NodeTransformer):
    """return E -> _rt = E; return _rt"""
    def __init__(self):
        self.n = 0

    def _block(self, stmts):
        out = []
        for s in stmts:
            if isinstance(s, ast.Return) and s.value is not None and not isinstance(s.value, (ast.Name, ast.Constant)):
                self.n += 1
                nm = "_rt%d" % self.n
                out.append(ast.copy_location(ast.Assign(targets=[ast.Name(id=nm, ctx=ast.Store())], value=s.value), s))
                out.append(ast.copy_location(ast.Return(value=ast.Name(id=nm, ctx=ast.Load())), s))
            else:
                out.append(s)
        return out

    def generic_visit(self, node):
        super().generic_visit(node)
        for f in ("body", "orelse", "finalbody"):
            sub = getattr(node, f, None)
            if isinstance(sub, list) and sub and isinstance(sub[0], ast.stmt):
                setattr(node, f, self._block(sub))
        return node


class ElseDrop(ast.NodeTransformer):
    """if c: ...return/raise  else: REST   ->   if c: ...return/raise ; REST"""
    def __init__(self):
        self.n = 0

    def _term(self, body):
        return bool(body) and isinstance(body[-1], (ast.Return, ast.Raise, ast.Continue, ast.Break))

    def _block(self, stmts):
        out = []
        for s in stmts:
            if isinstance(s, ast.If) and s.orelse and self._term(s.body) and not (len(s.orelse) == 1 and isinstance(s.orelse[0], ast.If)):
                rest = s.orelse
                s.orelse = []
                out.append(s)
                out.extend(rest)
                self.n += 1
            else:
                out.append(s)
        return out

    def generic_visit(self, node):
        super().generic_visit(node)
        for f in ("body", "orelse", "finalbody"):
            sub = getattr(node, f, None)
            if isinstance(sub, list) and sub and isinstance(sub[0], ast.stmt):
                setattr(node, f, self._block(sub))
        return node


class PosArgs(ast.NodeTransformer):
    """f(p=a, q=b) -> f(a, b) for package functions when the keywords are a prefix of the signature in order"""
    def __init__(self, sigs):
        self.sigs, self.n = sigs, 0

    def visit_Call(self, n):
        self.generic_visit(n)
        if isinstance(n.func, ast.Name) and n.func.id in self.sigs and n.keywords and not any(isinstance(a, ast.Starred) for a in n.args) and not any(k.arg is None for k in n.keywords):
            params = self.sigs[n.func.id]
            k = len(n.args)
            moved = 0
            while n.keywords and k < len(params) and n.keywords[0].arg == params[k]:
                n.args.append(n.keywords.pop(0).value)
                k += 1
                moved += 1
            if moved:
                self.n += 1
        return n


def _pure(e):
    return not any(isinstance(x, (ast.Call, ast.Yield, ast.Await, ast.NamedExpr, ast.Subscript)) for x in ast.walk(e))


class KwSort(ast.NodeTransformer):
    def __init__(self):
        self.n = 0

    def visit_Call(self, n):
        self.generic_visit(n)
        if len(n.keywords) > 1 and all(k.arg is not None for k in n.keywords) and all(_pure(k.value) for k in n.keywords):
            new = sorted(n.keywords, key=lambda k: k.arg)
            if [k.arg for k in new] != [k.arg for k in n.keywords]:
                n.keywords = new
                self.n += 1
        return n


class _Blocks(ast.NodeTransformer):
    """base: apply self._block to every statement list"""
    def __init__(self):
        self.n = 0

    def generic_visit(self, node):
        super().generic_visit(node)
        for f in ("body", "orelse", "finalbody"):
            sub = getattr(node, f, None)
            if isinstance(sub, list) and sub and isinstance(sub[0], ast.stmt) and not isinstance(node, (ast.ClassDef, ast.Module)):
                setattr(node, f, self._block(sub))
        return node


class TupleAssign(_Blocks):
    def _block(self, stmts):
        out = []
        i = 0
        while i < len(stmts):
            a = stmts[i]
            b = stmts[i + 1] if i + 1 < len(stmts) else None
            ok = lambda s_: isinstance(s_, ast.Assign) and len(s_.targets) == 1 and isinstance(s_.targets[0], ast.Name) and not isinstance(s_.value, (ast.Tuple, ast.Starred, ast.Yield))
            if b is not None and ok(a) and ok(b) and a.targets[0].id != b.targets[0].id and \
                    not any(isinstance(x, ast.Name) and x.id == a.targets[0].id for x in ast.walk(b.value)) and not any(isinstance(x, (ast.Lambda, ast.NamedExpr)) for x in ast.walk(b.value)):
                out.append(ast.copy_location(ast.Assign(targets=[ast.Tuple(elts=[a.targets[0], b.targets[0]], ctx=ast.Store())],
                                                        value=ast.Tuple(elts=[a.value, b.value], ctx=ast.Load())), a))
                self.n += 1
                i += 2
            else:
                out.append(a)
                i += 1
        return out


class WithMerge(ast.NodeTransformer):
    def __init__(self):
        self.n = 0

    def visit_With(self, n):
        self.generic_visit(n)
        if len(n.body) == 1 and isinstance(n.body[0], ast.With):
            inner = n.body[0]
            n.items = n.items + inner.items
            n.body = inner.body
            self.n += 1
        return n


class DeMorgan(ast.NodeTransformer):
    def __init__(self):
        self.n = 0

    def visit_If(self, n):
        self.generic_visit(n)
        t = n.test
        if isinstance(t, ast.BoolOp):
            other = ast.Or() if isinstance(t.op, ast.And) else ast.And()
            n.test = ast.UnaryOp(op=ast.Not(), operand=ast.BoolOp(op=other, values=[ast.UnaryOp(op=ast.Not(), operand=v) for v in t.values]))
            self.n += 1
        return n


class GuardSplit(ast.NodeTransformer):
    def __init__(self):
        self.n = 0

    def visit_If(self, n):
        self.generic_visit(n)
        t = n.test
        if isinstance(t, ast.BoolOp) and isinstance(t.op, ast.And) and not n.orelse:
            inner = ast.copy_location(ast.If(test=t.values[-1], body=n.body, orelse=[]), n)
            n.test = t.values[0] if len(t.values) == 2 else ast.BoolOp(op=ast.And(), values=t.values[:-1])
            n.body = [inner]
            self.n += 1
        return n


class _Ren(ast.NodeTransformer):
    def __init__(self, m):
        self.m = m

    def visit_Name(self, n):
        if n.id in self.m:
            return ast.copy_location(ast.Name(id=self.m[n.id], ctx=n.ctx), n)
        return n


class Comp2Loop(_Blocks):
    def _block(self, stmts):
        out = []
        for s in stmts:
            v = s.value if isinstance(s, ast.Assign) and len(s.targets) == 1 and isinstance(s.targets[0], ast.Name) else None
            if isinstance(v, ast.ListComp) and len(v.generators) == 1 and not v.generators[0].is_async and \
                    not any(isinstance(x, (ast.Lambda, ast.ListComp, ast.GeneratorExp, ast.DictComp, ast.SetComp, ast.NamedExpr)) for x in ast.walk(v.elt)) and \
                    not any(isinstance(x, ast.Name) and x.id == s.targets[0].id for x in ast.walk(v)):
                g = v.generators[0]
                self.n += 1
                m = {x.id: "_c%d_%s" % (self.n, x.id) for x in ast.walk(g.target) if isinstance(x, ast.Name)}
                tgt = _Ren(m).visit(copy.deepcopy(g.target))
                for x in ast.walk(tgt):
                    if isinstance(x, (ast.Name, ast.Tuple, ast.List)):
                        x.ctx = ast.Store()
                elt = _Ren(m).visit(copy.deepcopy(v.elt))
                name = s.targets[0].id
                body = [ast.Expr(value=ast.Call(func=ast.Attribute(value=ast.Name(id=name, ctx=ast.Load()), attr="append", ctx=ast.Load()), args=[elt], keywords=[]))]
                for c in reversed(g.ifs):
                    body = [ast.If(test=_Ren(m).visit(copy.deepcopy(c)), body=body, orelse=[])]
                out.append(ast.copy_location(ast.Assign(targets=[ast.Name(id=name, ctx=ast.Store())], value=ast.List(elts=[], ctx=ast.Load())), s))
                out.append(ast.copy_location(ast.For(target=tgt, iter=g.iter, body=body, orelse=[]), s))
            else:
                out.append(s)
        return out


class Loop2Comp(ast.NodeTransformer):
    def __init__(self):
        self.n = 0

    def visit_FunctionDef(self, fn):
        self.generic_visit(fn)
        self._fn = fn
        fn.body = self._walk(fn.body, fn)
        return fn

    def _walk(self, stmts, fn):
        out = []
        i = 0
        while i < len(stmts):
            a = stmts[i]
            b = stmts[i + 1] if i + 1 < len(stmts) else None
            done = False
            if isinstance(a, ast.Assign) and len(a.targets) == 1 and isinstance(a.targets[0], ast.Name) and isinstance(a.value, ast.List) and not a.value.elts \
                    and isinstance(b, ast.For) and not b.orelse and len(b.body) == 1 and isinstance(b.body[0], ast.Expr) and isinstance(b.body[0].value, ast.Call):
                c = b.body[0].value
                name = a.targets[0].id
                if isinstance(c.func, ast.Attribute) and c.func.attr == "append" and isinstance(c.func.value, ast.Name) and c.func.value.id == name and len(c.args) == 1 and not c.keywords:
                    tv = {x.id for x in ast.walk(b.target) if isinstance(x, ast.Name)}
                    outside = [x for s_ in fn.body for x in ast.walk(s_) if isinstance(x, ast.Name) and x.id in tv]
                    inside = [x for x in ast.walk(b) if isinstance(x, ast.Name) and x.id in tv]
                    uses_acc = any(isinstance(x, ast.Name) and x.id == name for x in ast.walk(c.args[0])) or any(isinstance(x, ast.Name) and x.id == name for x in ast.walk(b.iter))
                    if len(outside) == len(inside) and not uses_acc and not any(isinstance(x, (ast.Yield, ast.Await, ast.NamedExpr)) for x in ast.walk(b)):
                        out.append(ast.copy_location(ast.Assign(targets=[a.targets[0]], value=ast.ListComp(elt=c.args[0], generators=[ast.comprehension(target=b.target, iter=b.iter, ifs=[], is_async=0)])), a))
                        self.n += 1
                        i += 2
                        done = True
            if not done:
                for f in ("body", "orelse", "finalbody"):
                    sub = getattr(a, f, None)
                    if isinstance(sub, list) and sub and isinstance(sub[0], ast.stmt) and not isinstance(a, (ast.FunctionDef, ast.ClassDef)):
                        setattr(a, f, self._walk(sub, fn))
                out.append(a)
                i += 1
        return out


class Stmt2IfExp(ast.NodeTransformer):
    def __init__(self):
        self.n = 0

    def visit_If(self, n):
        self.generic_visit(n)
        if len(n.body) == 1 and len(n.orelse) == 1 and all(isinstance(s_, ast.Assign) and len(s_.targets) == 1 and isinstance(s_.targets[0], ast.Name) for s_ in (n.body[0], n.orelse[0])) \
                and n.body[0].targets[0].id == n.orelse[0].targets[0].id:
            self.n += 1
            return ast.copy_location(ast.Assign(targets=[n.body[0].targets[0]], value=ast.IfExp(test=n.test, body=n.body[0].value, orelse=n.orelse[0].value)), n)
        return n


class CmpFlip(ast.NodeTransformer):
    def __init__(self):
        self.n = 0

    def visit_Compare(self, n):
        self.generic_visit(n)
        flip = {ast.Lt: ast.Gt, ast.Gt: ast.Lt, ast.LtE: ast.GtE, ast.GtE: ast.LtE, ast.Eq: ast.Eq, ast.NotEq: ast.NotEq}
        if len(n.ops) == 1 and type(n.ops[0]) in flip and _pure(n.left) and _pure(n.comparators[0]):
            self.n += 1
            return ast.copy_location(ast.Compare(left=n.comparators[0], ops=[flip[type(n.ops[0])]()], comparators=[n.left]), n)
        return n


def transform(text, kind, sigs):
    tree = ast.parse(text)
    if kind == "ifswap":
        t = IfSwap()
        tree = t.visit(tree)
        n = t.n
    elif kind == "kwargs":
        t = Kwargs(sigs)
        tree = t.visit(tree)
        n = t.n
    elif kind == "commute":
        t = Commute()
        tree = t.visit(tree)
        n = t.n
    elif kind == "temps":
        n = temps(tree)
    elif kind == "rettemp":
        t = RetTemp()
        tree = t.visit(tree)
        n = t.n
    elif kind == "elsedrop":
        t = ElseDrop()
        tree = t.visit(tree)
        n = t.n
    elif kind == "posargs":
        t = PosArgs(sigs)
        tree = t.visit(tree)
        n = t.n
    elif kind in SIMPLE:
        t = SIMPLE[kind]()
        tree = t.visit(tree)
        n = t.n
    else:
        raise SystemExit("unknown transformation " + kind)
    ast.fix_missing_locations(tree)
    return ast.unparse(tree) + "\n", n


SIMPLE = {"kwsort": KwSort, "tupleassign": TupleAssign, "withmerge": WithMerge, "demorgan": DeMorgan, "guardsplit": GuardSplit, "comp2loop": Comp2Loop,
          "loop2comp": Loop2Comp, "stmt2ifexp": Stmt2IfExp, "cmpflip": CmpFlip}


def main():
    kinds = sys.argv[1:] or ["ifswap", "kwargs", "posargs", "temps", "rettemp", "elsedrop", "commute"] + sorted(SIMPLE)
    known = {k["key"] for k in load_known() if k.get("status") == "known"}
    sigs = package_signatures()
    paths = []
    for dp, dns, fns in os.walk(os.path.join(ROOT, "thejoker")):
        dns[:] = [d for d in dns if d not in ("tests", "__pycache__")]
        for f in sorted(fns):
            if f.endswith(".py"):
                paths.append(os.path.relpath(os.path.join(dp, f), ROOT))
    bad = 0
    total = 0
    for kind in kinds:
        for rel in sorted(paths):
            text = open(os.path.join(ROOT, rel), encoding="utf-8").read()
            new, cnt = transform(text, kind, sigs)
            if cnt == 0:
                continue
            total += 1
            prog = Program(root=ROOT, overlay={rel: new})
            alarms = []
            for pid in PROPS:
                code, ctx = run_property(pid, "quick", prog, quiet=True, write=False)
                if code != 0:
                    det = [] if ctx is None else [(o.rule, o.verdict, o.instance[:70], o.reason[:120]) for o in ctx.obls if (o.verdict == "violated" and o.key not in known) or o.verdict == "undecided"]
                    alarms.append((pid, code, det, [] if ctx is None else ctx.incomplete))
            print("%s %-8s %s (%d sites)" % ("ALARM" if alarms else "ok", kind, rel, cnt))
            if alarms:
                bad += 1
            for pid, code, det, inc in alarms:
                print("    ", pid, "exit", code)
                for d in det[:5]:
                    print("        ", d)
                for i in inc[:3]:
                    print("        incomplete:", i)
    print("%d transformed modules, %d with alarms" % (total, bad))
    return 1 if bad else 0


if __name__ == "__main__":
    sys.exit(main())
