#!/usr/bin/env python3
"""Regenerates 'Appendix C - rules applied per property' of DESIGN.md from evidence/*.json (run after a clean quick run of all checks)."""
import json, re
P = "/verif/DESIGN.md"
s = open(P).read()
head = "## Appendix C - rules applied per property (generated from evidence/*.json)"
i = s.index(head)
out = [head, ""]
for n in range(1, 20):
    pid = "C%02d" % n
    d = json.load(open("/verif/evidence/%s.json" % pid))
    c = d["coverage"]
    out.append("### %s  (%d obligations, %d distinct non-trivial)" % (pid, c["obligations"], c["distinct_nontrivial"]))
    out.append("")
    expl = c["explanation"]
    rules = expl.split("Rules applied: ", 1)[1] if "Rules applied: " in expl else expl
    for r in rules.split(" || "):
        if ": " in r:
            rid, txt = r.split(": ", 1)
            out.append("* **%s** — %s" % (rid.strip(), txt.strip().replace("  ++  ", " / ")))
    out.append("")
open(P, "w").write(s[:i] + "\n".join(out))
print("appendix C regenerated")
