"""Per-property claims for MANIFEST.json (what is decided, what is not)."""
T = "repository-specific static analysis (ast dataflow: forward substitution + exact normal forms + structural dominance)"
CLAIMS = {
 "C16": dict(
  ref="DESIGN.md 4.16",
  technique=T + "; linear-form premise checking of the partition theorem",
  text="Decides the six structural premises P1-P6 of the partition theorem on utils.batch_tasks for all n_tasks, n_batches, start_idx "
       "(cursor initialised at start_idx; end = cursor + n//k + [i < n%k] in `for i in range(k)`; task = [(cursor,end)|arr[cursor:end], cursor,...]; "
       "cursor = end closes the body; branch guard implies 1 <= k <= n; fall-back is [start, start+n)), plus run_worker wiring and the worker tuple layouts. "
       "Given the premises, contiguity / non-emptiness / exact cover follow by a two-line induction (DESIGN.md 4.16), so this is a proof of the property from the source shape, not a sample of inputs.",
  note="Trusted: Python integer // and % semantics, pool.map order preservation, list slicing. Does not execute anything."),
}
CLAIMS.update({
 "C02": dict(ref="DESIGN.md 4.2", technique=T + "; acceptance-predicate normal form, sibling cross-check",
  text="Decides, at all four rejection sites, that the accepted index is np.where(exp(L - max L) > U)[0] (strict; mirror and log forms accepted) with max over the same whole "
       "evaluated array, U = rng.uniform(size=len(L)) with default bounds from the function's rng parameter; that only exact prefix truncation [:k] touches the accepted index "
       "before rows are selected; that rows handed to the kernel are library rows at the accepted index, passed through make_full_samples* and the kernel's output columns 0-4 "
       "unmodified and in order; that n_prior_samples is forwarded and random order is a no-repeat draw. Does not decide numpy's sampling/indexing semantics (trusted).",
  note="Trusted: np.where ascending order, Generator.uniform iid U[0,1), fancy indexing copies rows. Probability statement follows from the predicate form + those library facts."),
 "C06": dict(ref="DESIGN.md 4.6 + appendix B.1", technique=T + "; index-space typing (evaluated-order vs library-row indices, SSA-versioned)",
  text="Decides by index-space typing that the ln_likelihood column is L[G] (L the array the acceptance used, G the accepted positions after the same truncation that built the rows) "
       "and the ln_prior column is read at the library rows R = G or M[G] that built the samples with field='ln_prior'; that return_all_logprobs returns the whole array; that the "
       "in-memory API takes ln_prior from the object it packs; plus the row pass-through and window/position alignment premises. Does not decide float scalar-ness of library returns beyond the field= clause.",
  note="Trusted: fancy indexing / read_coordinates return rows in index order; kernel emits n_linear consecutive rows per input row (C02-COPY/C03-LAYOUT)."),
 "C10": dict(ref="DESIGN.md 4.10", technique=T + "; who-may-call over the whole package, generator provenance dataflow, call-graph forwarding",
  text="Decides: zero uses of numpy's legacy global RNG API / stdlib random outside rng_context and zero callers of rng_context (whole package); every draw site's generator derives from "
       "the rng parameter / self.rng / the task generator; every internal call that can reach a draw forwards such a generator; run_worker gives task i Generator(PCG64(spawn(len(tasks))[i])) "
       "of the parent's own seed sequence and workers draw from their task's generator; no fresh/constant-seeded generator anywhere else. Does not decide bit-identity of numpy streams across processes.",
  note="Trusted: SeedSequence.spawn yields distinct children and advances between calls; numpy Generators are deterministic in their seed; pm.draw(random_seed=g) uses only g."),
 "C13": dict(ref="DESIGN.md 4.13", technique=T + "; call-graph reachability, try/finally typestate, handler discipline, write-path provenance (taint over parameters)",
  text="Decides on every function reachable from the three sampling entry points: the temp file's creation is followed only by close() before a try whose finally unconditionally unlinks it and "
       "whose handlers re-raise; every except handler re-raises or is allow-listed with a reason; every open is literal mode 'r' inside a with; every write-capable primitive acts only on "
       "NamedTemporaryFile(...).name traced through parameters along call chains; sampling methods store no state on self and never close/enter the caller's pool. Does not decide OS/HDF5 behaviour on failure.",
  note="Trusted: mode='r' opens never modify files; os.unlink removes; pool.map re-raises worker exceptions in the parent."),
 "C14": dict(ref="DESIGN.md 4.14", technique=T + "; cursor-chain linear forms, return-value typestate, sibling agreement",
  text="Decides for both iterative siblings: no `return <exception>`/None and every return is the make_full_samples* result; exact prefix truncation by n_requested_samples before rows are selected; "
       "windows are X[cursor:cursor+size] over arange/choice(replace=False), the cursor advances by the size just evaluated, the next size is clamped to a LIMIT that depends on max_prior_samples "
       "after both updates, size<=0 stops, size>LIMIT raises before the loop, final rows use the evaluated row map; the acceptance form of C02 on the accumulated array; both siblings and the API honour max_prior_samples. "
       "Does not decide data-dependent counts.",
  note="Trusted: choice(replace=False) distinct rows; arange identity map."),
})
NOT_APPLICABLE = {}
