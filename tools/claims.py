"""Per-property claims for MANIFEST.json (what is decided, what is not)."""
T = "repository-specific static analysis (ast dataflow: forward substitution + exact normal forms + structural dominance)"
CLAIMS = {
 "C16": dict(
  ref="DESIGN.md 4.16",
  technique=T + "; linear-form premise checking of the partition theorem",
  text="Decides the six structural premises P1-P6 of the partition theorem on utils.batch_tasks for all n_tasks, n_batches, start_idx "
       "(cursor initialised at start_idx; end = cursor + n//k + [i < n%k] in `for i in range(k)`; task = [(cursor,end)|arr[cursor:end], cursor,...]; "
       "cursor = end closes the body; branch guard implies 1 <= k <= n; fall-back is [start, start+n)), plus run_worker wiring and the worker tuple layouts. "
       "Given the premises, contiguity / non-emptiness / exact cover follow by a two-line induction (DESIGN.md 4.16), so this is a proof of the property from the source shape, not a sample of inputs.",
  note="Trusted: Python integer // and % semantics, pool.map order preservation, list slicing. Does not execute anything."),
}
CLAIMS.update({
 "C02": dict(ref="DESIGN.md 4.2", technique=T + "; acceptance-predicate normal form, sibling cross-check",
  text="Decides, at all four rejection sites, that the accepted index is np.where(exp(L - max L) > U)[0] (strict; mirror and log forms accepted) with max over the same whole "
       "evaluated array, U = rng.uniform(size=len(L)) with default bounds from the function's rng parameter; that only exact prefix truncation [:k] touches the accepted index "
       "before rows are selected; that rows handed to the kernel are library rows at the accepted index, passed through make_full_samples* and the kernel's output columns 0-4 "
       "unmodified and in order; that n_prior_samples is forwarded and random order is a no-repeat draw. Does not decide numpy's sampling/indexing semantics (trusted).",
  note="Trusted: np.where ascending order, Generator.uniform iid U[0,1), fancy indexing copies rows. Probability statement follows from the predicate form + those library facts."),
 "C06": dict(ref="DESIGN.md 4.6 + appendix B.1", technique=T + "; index-space typing (evaluated-order vs library-row indices, SSA-versioned)",
  text="Decides by index-space typing that the ln_likelihood column is L[G] (L the array the acceptance used, G the accepted positions after the same truncation that built the rows) "
       "and the ln_prior column is read at the library rows R = G or M[G] that built the samples with field='ln_prior'; that return_all_logprobs returns the whole array; that the "
       "in-memory API takes ln_prior from the object it packs; plus the row pass-through and window/position alignment premises. Does not decide float scalar-ness of library returns beyond the field= clause.",
  note="Trusted: fancy indexing / read_coordinates return rows in index order; kernel emits n_linear consecutive rows per input row (C02-COPY/C03-LAYOUT)."),
 "C10": dict(ref="DESIGN.md 4.10", technique=T + "; who-may-call over the whole package, generator provenance dataflow, call-graph forwarding",
  text="Decides: zero uses of numpy's legacy global RNG API / stdlib random outside rng_context and zero callers of rng_context (whole package); every draw site's generator derives from "
       "the rng parameter / self.rng / the task generator; every internal call that can reach a draw forwards such a generator; run_worker gives task i Generator(PCG64(spawn(len(tasks))[i])) "
       "of the parent's own seed sequence and workers draw from their task's generator; no fresh/constant-seeded generator anywhere else. Does not decide bit-identity of numpy streams across processes.",
  note="Trusted: SeedSequence.spawn yields distinct children and advances between calls; numpy Generators are deterministic in their seed; pm.draw(random_seed=g) uses only g."),
 "C13": dict(ref="DESIGN.md 4.13", technique=T + "; call-graph reachability, try/finally typestate, handler discipline, write-path provenance (taint over parameters)",
  text="Decides on every function reachable from the three sampling entry points: the temp file's creation is followed only by close() before a try whose finally unconditionally unlinks it and "
       "whose handlers re-raise; every except handler re-raises or is allow-listed with a reason; every open is literal mode 'r' inside a with; every write-capable primitive acts only on "
       "NamedTemporaryFile(...).name traced through parameters along call chains; sampling methods store no state on self and never close/enter the caller's pool. Does not decide OS/HDF5 behaviour on failure.",
  note="Trusted: mode='r' opens never modify files; os.unlink removes; pool.map re-raises worker exceptions in the parent."),
 "C14": dict(ref="DESIGN.md 4.14", technique=T + "; cursor-chain linear forms, return-value typestate, sibling agreement",
  text="Decides for both iterative siblings: no `return <exception>`/None and every return is the make_full_samples* result; exact prefix truncation by n_requested_samples before rows are selected; "
       "windows are X[cursor:cursor+size] over arange/choice(replace=False), the cursor advances by the size just evaluated, the next size is clamped to a LIMIT that depends on max_prior_samples "
       "after both updates, size<=0 stops, size>LIMIT raises before the loop, final rows use the evaluated row map; the acceptance form of C02 on the accumulated array; both siblings and the API honour max_prior_samples. "
       "Does not decide data-dependent counts.",
  note="Trusted: choice(replace=False) distinct rows; arange identity map."),
})
CLAIMS.update({
 "C01": dict(ref="DESIGN.md 4.1", technique=T + "; field def-use over the Cython kernel (fail-closed desugarer), abstract-cell evaluation of the slotting if-tree, loop-nest lifting to index-notation terms compared in exact rational normal form",
  text="Decides the structural clauses that make the kernel the closed-form Gaussian marginal: the jitter fold W = ivar/(1+s^2 ivar) is what every term of the marginalisation chain reads (never the raw weights); "
       "prior means/variances land in the slot of their design-matrix row for every cell of {K, v0, other} x {default, custom K prior}; the K-variance rule equals the distribution's sigma^2 with the max_K^2 cap; "
       "packed columns map to the Kepler routine's prototype slots with t0 = data reference epoch; all 18 field updates lift to the tensor forms of Ainv, A, b, B, Binv (Woodbury), logdet, chi2 and the result is -(chi2+logdet)/2 with failure sentinels; "
       "kernel scalar units; design-matrix columns; samples reach the kernel in packed order and internal units. Does not decide round-off, finiteness, LAPACK or Kepler-solver convergence.",
  note="Trusted: LAPACK and twobody summaries (in/out roles, formulas); Cython semantics of the subset; the .so is rebuilt from the .pyx (Cython absent here)."),
 "C03": dict(ref="DESIGN.md 4.3", technique=T + "; sibling-prologue effect-set comparison, dominance of the solve over the draw, loop-nest lifting",
  text="Decides: the three per-sample prologues perform the same guarded effects (Kepler column, jitter fold, K-variance rule and cap) so the draw uses the prior and weights the sample was accepted with; the draw is "
       "rng.multivariate_normal(a, inv(Ainv)|A, size=n_linear_samples_per) from the method's generator, dominated in the iteration by likelihood_worker(1) with no intervening rewrite; a's right-hand side and Ainv lift to "
       "M^T W y + mu/Lambda and diag(1/Lambda) + M^T W M solved by dsysv on a copy; output column 5+k = draw column k and the unit-table key order is the design-matrix order; per-batch generators are independent children. "
       "Does not decide the distributional correctness of numpy's sampler.",
  note="Trusted: Generator.multivariate_normal draws iid N(mean, cov); dsysv solves the symmetric system."),
 "C04": dict(ref="DESIGN.md 4.4", technique=T + "; reference-epoch provenance, element/column agreement in rational normal form",
  text="Decides: one reference epoch flows from data._t_ref_bmjd to the kernel's Kepler t0, the trend matrix dt, the unpack sites (t_ref/poly_trend/n_offsets from the helper) and get_orbit's elements and trend; "
       "get_orbit maps column X to element X with a = P K/(2 pi) sqrt(1-e^2) and the trend columns in order; ln_unmarginalized_likelihood is sum ln N(model_i(t) | y, err^2 + s_i^2) with the exact ln_normal; jitter reaches the kernel; "
       "FITS epoch scale agreement. Known finding F18 (offsets never enter the reconstructed model). Does not decide the numerical Bayes identity itself.",
  note="Trusted: twobody KeplerOrbit + PolynomialRVTrend evaluate the same formula as c_rv_from_elements."),
 "C05": dict(ref="DESIGN.md 4.5", technique=T + "; kernel field def-use (upward-exposed reads per iteration), hidden-state effect analysis over the call-graph closure",
  text="Decides: in one iteration of each per-sample loop every read of a field rewritten outside __init__ is preceded by a covering write of the same iteration (no loop-carried helper state); __reduce__/__init__ rebuild the helper from "
       "(data, prior, trend_M); no reachable function is memoised, writes module state or stores attributes through its parameters; every array reaching the kernel derives from read_batch/pack in the SAME helper's order and units; "
       "the acceptance uniforms are the first draw on every path; results keep task order; readers return the requested rows in order. Does not decide bitwise float equality across processes.",
  note="Trusted: LAPACK/Kepler in/out roles; pool.map order."),
 "C07": dict(ref="DESIGN.md 4.7 + appendix B.2", technique=T + "; unit-tag agreement at every strip site, frozen strip-site inventory",
  text="Decides that every bare number stripped from a quantity on the numeric path is stripped in the unit it is then paired with: kernel unit table, rv/ivar, prior mean/std conversions (same variable, same name), sigma_K0/max_K/P0, "
       "default-prior constructor arguments vs with_unit, FixedCompanionMass internals, pack/unpack, reader conversion direction, to_unit/with_unit, multi-survey common unit, unmarginalised likelihood; plus an inventory that fails when a new strip site appears. "
       "Does not decide the Jacobian constant or twin-run numerical equality.",
  note="Trusted: astropy unit conversion."),
 "C08": dict(ref="DESIGN.md 4.8", technique=T + "; lock-step accumulator rule, row-order tags derived from RVData.__init__",
  text="Decides: the four per-source accumulators are appended once, unconditionally, from the same source, in one common unit, concatenated once and merged unchanged; the merged RVData is time-sorted (derived from C15) so every per-epoch array used with it "
       "must be re-aligned by the argsort of the same times - today `ids` is not (known finding F6, two keyed sites); offset column j+1 is the boolean indicator of the (j+1)-th unique id; count check dominates; offset priors keep the caller's order. "
       "Does not decide likelihood values of labelled data.",
  note="Trusted: np.unique sorted; boolean-mask assignment."),
 "C09": dict(ref="DESIGN.md 4.9", technique=T + "; log-expanded rational normal forms of densities and inverse CDFs, wiring agreement",
  text="Decides: UniformLog.logp = switch(a<=x<=b, -log x - log(log b - log a), -inf) under check_parameters and rng_fn = exp(u log(b/a) + log a) (both class variants); FixedCompanionMass sigma/clip/unit handling and its agreement with the kernel's variance rule; "
       "Kipping Beta parameters; default-prior wiring; JokerPrior.sample draws jointly, pairs draw i with name i, sums pm.logp over ALL drawn variables at their own columns. Known finding F17 (K term evaluated without its parents' row values). "
       "Does not decide densities of pymc built-ins.",
  note="Trusted: pymc/pytensor distributions."),
 "C11": dict(ref="DESIGN.md 4.11", technique=T + "; unit-conversion inventory of the model parameters, normal-form agreement with the sampler's conventions",
  text="Decides: t_peri = P M0/(2 pi) passed as t_periastron, times = BMJD - t_ref, library M = (t - t_peri) n and v_r = K(cos(omega+f) + e cos omega); trend = M.[v0, offsets, v1..] with the sampler's design matrix; obs sigma = sqrt(err^2+s^2) and the "
       "ln_likelihood diagnostic uses the same sigma and y; every prior tensor passes through to_unit to day / rad / data unit / data unit per day^i; initial point in the prior's units from the median-period sample. Does not decide equality of densities as numbers.",
  note="Trusted: pymc Normal logp; exoplanet-derived Kepler solver op."),
 "C12": dict(ref="DESIGN.md 4.12", technique=T + "; dispatch exhaustiveness, column/field/unit pairing, dominance of refusals over the first mutation, writer/reader agreement",
  text="Decides: read_batch dispatch is exhaustive and forwards file/columns/units/rng; column i is filled from field columns[i] and converted file->requested; the index reader reads exactly the requested index array in order; random batches never repeat rows; "
       "on append every refusal (missing metadata, metadata conflict with policy 'error' on every path incl. the recursive call, dtype/column-count mismatch) dominates the first dataset mutation; writer/readers agree on dataset + metadata paths and the FITS epoch scale. "
       "Does not decide exact round-trip through astropy/h5py/pytables.",
  note="Trusted: library serialisation; pytables read/read_coordinates row order."),
 "C15": dict(ref="DESIGN.md 4.15", technique=T + "; lock-step selector rule over RVData.__init__",
  text="Decides: each row selector (finite mask under clean, time argsort) is applied to t, rv, rv_err on rows (and columns for covariances) before the next selector is computed; the mask is the conjunction of isfinite of all three; "
       "covariance slicing is rows-then-columns; ivar/cov formulas; default t_ref from the object's own cleaned times; copy forwards every piece of state. Does not decide values.",
  note="Trusted: numpy indexing semantics."),
 "C17": dict(ref="DESIGN.md 4.17", technique=T + "; composed-store normal form for wrap_K, rational normal form for the phase time, constructor-call metadata discipline",
  text="Decides: wrap_K touches only masked rows, K <- |K|, omega <- (omega + pi rad) mod 2 pi rad in radians; get_time_with_phase = t_ref + P(M0+phase)/(2 pi) recomputed on every call (no instance cache beyond get_orbit's template); every re-construction keeps "
       "table metadata; median_period returns a member row selected over P; pack/unpack name/unit/column agreement. Does not decide numerical invariance of the RV curve.",
  note="Trusted: astropy Quantity arithmetic; QTable selection keeps meta."),
 "C18": dict(ref="DESIGN.md 4.18", technique=T + "; guard inventory matched by negation normal form with implication, loop-quantifier and dominance checks",
  text="Decides for 22 validation conditions + 5 try-guards: the condition is implied by the (path-qualified) test of an `if` whose body always raises, quantified over the full name set with no earlier continue/break, and dominating the accepting effect; "
       "the Normal-only allow-list is exactly {Normal, FixedCompanionMass}; par_names order; every sampling method validates its data first. Does not decide which exception type pymc raises inside library calls.",
  note="Trusted: pymc op naming (_print_name)."),
 "C19": dict(ref="DESIGN.md 4.19", technique=T + "; shift-set domain for the phase-gap array, formula agreement",
  text="Decides: MAP_sample = samples[argmax(ln_prior + ln_likelihood)]; max_phase_gap differences an array containing the sorted phases followed by a copy (or first element) shifted by exactly one period; phase_coverage = occupied bins / n_bins over linspace(0,1,n_bins+1); "
       "periods_spanned = baseline[d] / P[d]; per-observation arrays only reach results through order-free reducers. Does not decide numerical values.",
  note="Trusted: numpy sort/histogram."),
})
NOT_APPLICABLE = {}
