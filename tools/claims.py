"""Per-property claims for MANIFEST.json (what is decided, what is not)."""
T = "repository-specific static analysis (ast dataflow: forward substitution + exact normal forms + structural dominance)"
CLAIMS = {
 "C16": dict(
  ref="DESIGN.md 4.16",
  technique=T + "; linear-form premise checking of the partition theorem",
  text="Decides the six structural premises P1-P6 of the partition theorem on utils.batch_tasks for all n_tasks, n_batches, start_idx "
       "(cursor initialised at start_idx; end = cursor + n//k + [i < n%k] in `for i in range(k)`; task = [(cursor,end)|arr[cursor:end], cursor,...]; "
       "cursor = end closes the body; branch guard implies 1 <= k <= n; fall-back is [start, start+n)), plus run_worker wiring and the worker tuple layouts. "
       "Given the premises, contiguity / non-emptiness / exact cover follow by a two-line induction (DESIGN.md 4.16), so this is a proof of the property from the source shape, not a sample of inputs.",
  note="Trusted: Python integer // and % semantics, pool.map order preservation, list slicing. Does not execute anything."),
}
NOT_APPLICABLE = {}
