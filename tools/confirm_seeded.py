#!/usr/bin/env python3
"""Confirm a sub-agent's seeded change independently and file it under /verif/seeded/<prop>-<X>/.

usage: confirm_seeded.py C16 A   (uses /tmp/seeded_out/C16/{patchA.diff,demoA.py,metaA.json} and the scratch worktree /tmp/wt/C16)
Confirms: patch applies to a clean checkout; the 50 stable tests still pass with it; the demo exits non-zero with the
patch and 0 without.  Never touches /repo.
"""
import json, os, re, shutil, subprocess, sys, xml.etree.ElementTree as ET

prop, X = sys.argv[1], sys.argv[2]
src = "/tmp/seeded_out/%s" % prop
wt = "/tmp/wt/%s" % prop
out = "/verif/seeded/%s-%s" % (prop, X)
env = dict(os.environ, PYTHONPATH=wt)
stable = set(json.load(open("/root/.vp/BASELINE.json"))["stable_pass"])

def sh(cmd, **kw):
    return subprocess.run(cmd, shell=True, cwd=wt, env=env, capture_output=True, text=True, **kw)

assert sh("git status --porcelain").stdout.strip() == "", "worktree not clean"
patch = os.path.join(src, "patch%s.diff" % X)
demo = os.path.join(src, "demo%s.py" % X)
r = sh("git apply --check %s" % patch)
assert r.returncode == 0, "patch does not apply: " + r.stderr
clean_demo = sh("/venv/bin/python %s" % demo, timeout=1800)
sh("git apply %s" % patch)
try:
    junit = "/tmp/seeded_out/%s/junit%s.xml" % (prop, X)
    t = sh("/venv/bin/python -m pytest -q -p no:cacheprovider --timeout=900 --continue-on-collection-errors --junitxml=%s" % junit, timeout=3600)
    passed = set()
    for tc in ET.parse(junit).getroot().iter("testcase"):
        if not list(tc):
            passed.add("%s::%s" % (tc.get("classname"), tc.get("name")))
    missing = sorted(stable - passed)
    pat_demo = sh("/venv/bin/python %s" % demo, timeout=1800)
finally:
    sh("git checkout -- .")
ok = (not missing) and clean_demo.returncode == 0 and pat_demo.returncode != 0
meta_in = {}
try:
    meta_in = json.load(open(os.path.join(src, "meta%s.json" % X)))
except Exception:
    pass
meta = {
    "property": prop,
    "breaks": meta_in.get("summary", ""),
    "needs_to_manifest": meta_in.get("needs_to_manifest", ""),
    "files_changed": meta_in.get("files_changed", []),
    "origin": "independent sub-agent given only the property text and a scratch worktree (no access to /verif)",
    "confirmed_by_me": {
        "base_commit": sh("git rev-parse HEAD").stdout.strip(),
        "ran": ["git apply --check patch.diff", "full pytest baseline command in the scratch worktree with the patch (junit compared with BASELINE stable_pass)",
                "demo.py on the clean worktree", "demo.py on the patched worktree"],
        "stable_tests_passing_with_patch": len(stable & passed),
        "stable_tests_missing": missing,
        "demo_exit_clean": clean_demo.returncode,
        "demo_exit_patched": pat_demo.returncode,
        "demo_patched_tail": (pat_demo.stdout + pat_demo.stderr)[-600:],
        "valid": ok,
    },
}
print(json.dumps(meta["confirmed_by_me"], indent=1)[:1500])
if ok:
    os.makedirs(out, exist_ok=True)
    shutil.copy(patch, os.path.join(out, "patch.diff"))
    shutil.copy(demo, os.path.join(out, "demo.py"))
    json.dump(meta, open(os.path.join(out, "meta.json"), "w"), indent=1)
    print("FILED", out)
else:
    print("NOT VALID", prop, X)
