#!/usr/bin/env python3
"""debug aid: print the load-time normal form of a function, optionally with a patch applied as an overlay.
usage: show_nf.py thejoker.data RVData.__getitem__ [patch.diff]"""
import ast, sys
sys.path.insert(0, "/verif")
from sa.loader import Program, repo_root
overlay = None
if len(sys.argv) > 3:
    from sa.selftest.patch import apply as _ap
    overlay = _ap(open(sys.argv[3]).read(), repo_root())
prog = Program(root=repo_root(), overlay=overlay) if overlay else Program(root=repo_root())
print(ast.unparse(prog.func(sys.argv[1], sys.argv[2])))
