#!/bin/sh
# usage: try_patch.sh <patch.diff> <Cxx> [more Cxx...]   -- applies the patch to /repo, runs the quick checks, always reverts
P="$1"; shift
cd /repo || exit 9
if ! git diff --quiet; then echo "/repo not clean"; exit 9; fi
git apply "$P" || { echo "patch does not apply"; exit 9; }
for id in "$@"; do
  (cd /verif && ./check "$id" --tier quick 2>&1 | grep -E "VIOLATION|ANALYSIS|KNOWN|^thejoker|^property" | head -12; )
done
git -C /repo checkout -- . 
git -C /repo status --short | head -3
