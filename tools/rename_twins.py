#!/usr/bin/env python3
"""Metamorphic false-alarm test: alpha-rename every local variable of every Python function of the package (parameters, attributes, globals and
keyword names are left alone), one module at a time, as an in-memory overlay, and run all 19 checks.  Renaming locals never changes behaviour,
so every exit code other than 0 is a false alarm that points at a rule which still depends on a local name."""
import ast, os, sys, json
sys.path.insert(0, "/verif")
from sa.loader import Program, repo_root
from sa.__main__ import run_property, PROPS
from sa.report import load_known

ROOT = repo_root()


def rename_module(text, prefix="zq_"):
    tree = ast.parse(text)
    module_names = set()
    for n in ast.walk(tree):
        if isinstance(n, (ast.Import, ast.ImportFrom)):
            for a in n.names:
                module_names.add((a.asname or a.name).split(".")[0])
    for s in tree.body:
        if isinstance(s, (ast.FunctionDef, ast.ClassDef)):
            module_names.add(s.name)
        if isinstance(s, ast.Assign):
            for t in s.targets:
                for x in ast.walk(t):
                    if isinstance(x, ast.Name):
                        module_names.add(x.id)
    count = 0

    def do_fn(fn):
        nonlocal count
        params = {a.arg for a in fn.args.posonlyargs + fn.args.args + fn.args.kwonlyargs}
        if fn.args.vararg:
            params.add(fn.args.vararg.arg)
        if fn.args.kwarg:
            params.add(fn.args.kwarg.arg)
        skip = set(params) | module_names
        nested_params = set()
        for n in ast.walk(fn):
            if n is not fn and isinstance(n, (ast.FunctionDef, ast.AsyncFunctionDef, ast.Lambda)):
                a = n.args
                nested_params |= {x.arg for x in a.posonlyargs + a.args + a.kwonlyargs}
                if a.vararg:
                    nested_params.add(a.vararg.arg)
                if a.kwarg:
                    nested_params.add(a.kwarg.arg)
                if not isinstance(n, ast.Lambda):
                    skip.add(n.name)
            if isinstance(n, (ast.Global, ast.Nonlocal)):
                skip |= set(n.names)
            if isinstance(n, (ast.Import, ast.ImportFrom)):
                for a_ in n.names:
                    skip.add((a_.asname or a_.name).split(".")[0])
            if isinstance(n, ast.ExceptHandler) and n.name:
                skip.add(n.name)
        skip |= nested_params
        local = set()
        for n in ast.walk(fn):
            if isinstance(n, ast.Name) and isinstance(n.ctx, (ast.Store, ast.Del)) and n.id not in skip and not n.id.startswith("__"):
                local.add(n.id)
        for n in ast.walk(fn):
            if isinstance(n, ast.Name) and n.id in local:
                n.id = prefix + n.id
                count += 1

    for n in ast.walk(tree):
        if isinstance(n, (ast.FunctionDef, ast.AsyncFunctionDef)):
            # only outermost functions / methods: nested ones are covered by the walk of their parent
            pass
    def visit(node, inside):
        for ch in ast.iter_child_nodes(node):
            if isinstance(ch, (ast.FunctionDef, ast.AsyncFunctionDef)) and not inside:
                do_fn(ch)
                visit(ch, True)
            else:
                visit(ch, inside)
    visit(tree, False)
    return ast.unparse(tree) + "\n", count


def main():
    known = {k["key"] for k in load_known() if k.get("status") == "known"}
    paths = []
    for dp, dns, fns in os.walk(os.path.join(ROOT, "thejoker")):
        dns[:] = [d for d in dns if d not in ("tests", "__pycache__")]
        for f in sorted(fns):
            if f.endswith(".py"):
                paths.append(os.path.relpath(os.path.join(dp, f), ROOT))
    rows = []
    for rel in sorted(paths):
        text = open(os.path.join(ROOT, rel), encoding="utf-8").read()
        new, cnt = rename_module(text)
        if cnt == 0:
            continue
        prog = Program(root=ROOT, overlay={rel: new})
        alarms = []
        for pid in PROPS:
            code, ctx = run_property(pid, "quick", prog, quiet=True, write=False)
            if code != 0:
                det = [] if ctx is None else [(o.rule, o.verdict, o.instance[:70], o.reason[:120]) for o in ctx.obls if (o.verdict == "violated" and o.key not in known) or o.verdict == "undecided"]
                alarms.append((pid, code, det, [] if ctx is None else ctx.incomplete))
        rows.append((rel, cnt, alarms))
        print("%s %s (%d renamed occurrences)" % ("ALARM" if alarms else "ok", rel, cnt))
        for pid, code, det, inc in alarms:
            print("    ", pid, "exit", code)
            for d in det[:6]:
                print("        ", d)
            for i in inc[:3]:
                print("        incomplete:", i)
    n_al = sum(1 for r in rows if r[2])
    print("%d modules renamed, %d with alarms" % (len(rows), n_al))
    return 1 if n_al else 0


if __name__ == "__main__":
    sys.exit(main())
