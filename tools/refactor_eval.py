#!/usr/bin/env python3
"""Runs all 19 checks on every behaviour-preserving refactoring patch (independent sub-agents' output, or the copies kept under
/verif/seeded/refactors/) applied to a scratch worktree of /repo HEAD.  Any exit != 0 is a FALSE ALARM of the checker."""
import glob, json, os, subprocess, sys
sys.path.insert(0, "/verif")
from sa.loader import Program
from sa.__main__ import run_property, PROPS
from sa.report import load_known

srcs = sorted(glob.glob("/verif/seeded/refactors*/g*_r*.diff")) if len(sys.argv) < 2 else sorted(glob.glob(sys.argv[1]))
WT = "/tmp/refactor_eval_wt"
subprocess.run(["git", "-C", "/repo", "worktree", "remove", "--force", WT], capture_output=True)
subprocess.check_call(["git", "-C", "/repo", "worktree", "add", "-q", "--detach", WT, "HEAD"])
known = {k["key"] for k in load_known() if k.get("status") == "known"}
rows = []
try:
    for p in srcs:
        r = subprocess.run(["git", "-C", WT, "apply", p], capture_output=True, text=True)
        if r.returncode != 0:
            rows.append((p, "patch does not apply", []))
            continue
        try:
            prog = Program(root=WT)
            alarms = []
            for pid in PROPS:
                code, ctx = run_property(pid, "quick", prog, quiet=True, write=False)
                if code != 0:
                    det = [] if ctx is None else [(o.rule, o.verdict, o.instance[:70], o.reason[:110]) for o in ctx.obls if (o.verdict == "violated" and o.key not in known) or o.verdict == "undecided"]
                    inc = [] if ctx is None else ctx.incomplete
                    alarms.append((pid, code, det, inc))
            rows.append((p, "ok" if not alarms else "ALARM", alarms))
        finally:
            subprocess.check_call(["git", "-C", WT, "checkout", "--", "."])
finally:
    subprocess.run(["git", "-C", "/repo", "worktree", "remove", "--force", WT], capture_output=True)
n_al = sum(1 for r in rows if r[1] == "ALARM")
for p, st, alarms in rows:
    print(st, p)
    for pid, code, det, inc in alarms:
        print("    ", pid, "exit", code)
        for d in det[:6]:
            print("        ", d)
        for i in inc[:3]:
            print("        incomplete:", i)
print("%d patches, %d with alarms" % (len(rows), n_al))
OUT = "/verif/seeded/refactors/EVAL.json" if len(sys.argv) < 2 else "/tmp/refactor_eval.json"
json.dump([{"patch": p, "status": st, "alarms": [{"property": a[0], "exit": a[1], "detail": a[2], "incomplete": a[3]} for a in al]} for p, st, al in rows], open(OUT, "w"), indent=1, default=str)
