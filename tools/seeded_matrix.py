#!/usr/bin/env python3
"""Runs every registered check against every filed seeded change (on a scratch worktree, never /repo)
and writes /verif/seeded/MATRIX.md + MATRIX.json: which checks catch which change."""
import json, os, subprocess, sys
sys.path.insert(0, "/verif")
from sa.loader import Program
from sa.__main__ import run_property, PROPS

WT = "/tmp/seeded_matrix_wt"
subprocess.run(["git", "-C", "/repo", "worktree", "remove", "--force", WT], capture_output=True)
subprocess.check_call(["git", "-C", "/repo", "worktree", "add", "-q", "--detach", WT, "HEAD"])
rows = {}
try:
    for d in sorted(os.listdir("/verif/seeded")):
        p = os.path.join("/verif/seeded", d, "patch.diff")
        if not os.path.exists(p):
            continue
        r = subprocess.run(["git", "-C", WT, "apply", p], capture_output=True, text=True)
        if r.returncode != 0:
            rows[d] = {"error": "patch does not apply to current HEAD: " + r.stderr[:100]}
            continue
        try:
            prog = Program(root=WT)
            res = {}
            for pid in PROPS:
                code, ctx = run_property(pid, "quick", prog, quiet=True, write=False)
                fresh = []
                if ctx is not None:
                    from sa.report import load_known
                    known = {k["key"] for k in load_known() if k.get("status") == "known"}
                    fresh = sorted({o.rule for o in ctx.violations() if o.key not in known})
                res[pid] = {"exit": code, "rules": fresh}
            rows[d] = res
        finally:
            subprocess.check_call(["git", "-C", WT, "checkout", "--", "."])
finally:
    subprocess.run(["git", "-C", "/repo", "worktree", "remove", "--force", WT], capture_output=True)
json.dump(rows, open("/verif/seeded/MATRIX.json", "w"), indent=1)
lines = ["# Seeded changes x checks", "", "Each seeded change (from an independent sub-agent, confirmed: 50 stable tests pass, demo fails with / passes without) applied to a scratch worktree of /repo HEAD;",
         "every check's quick tier run on it.  `own` = the check of the property the change was written to break.", "", "| change | breaks | own check | rules that fired (own) | other checks that also fire |", "|---|---|---|---|---|"]
n_ok = 0
for d, res in rows.items():
    own = d.split("-")[0]
    meta = json.load(open(os.path.join("/verif/seeded", d, "meta.json")))
    if "error" in res:
        lines.append("| %s | %s | n/a | %s | |" % (d, own, res["error"]))
        continue
    o = res[own]
    others = ["%s(%s)" % (p, ",".join(r["rules"])) for p, r in res.items() if p != own and r["exit"] == 1]
    n_ok += o["exit"] == 1
    lines.append("| %s | %s | %s | %s | %s |" % (d, meta.get("breaks", "")[:90].replace("|", "/").replace("\n", " "), "caught (exit 1)" if o["exit"] == 1 else "MISSED (exit %s)" % o["exit"], ", ".join(o["rules"]), "; ".join(others)))
lines += ["", "%d of %d seeded changes are reported by the check of the property they break." % (n_ok, len(rows))]
open("/verif/seeded/MATRIX.md", "w").write("\n".join(lines) + "\n")
print("\n".join(lines[-3:]))
for d, res in rows.items():
    own = d.split("-")[0]
    if "error" in res or res[own]["exit"] != 1:
        print("ATTENTION", d, res.get("error") or res[own])
