#!/usr/bin/env python3
"""Regenerates /verif/MANIFEST.json from tools/claims.py (run after changing claims)."""
import json, os, sys
HERE = os.path.dirname(os.path.abspath(__file__))
sys.path.insert(0, HERE)
from claims import CLAIMS, NOT_APPLICABLE

props = [json.loads(l)["id"] for l in open(os.path.join(HERE, "..", "properties.jsonl"))]
checks, na = [], []
for pid in props:
    if pid in CLAIMS:
        c = CLAIMS[pid]
        checks.append({
            "property_id": pid,
            "quick_cmd": "./check %s --tier quick" % pid,
            "thorough_cmd": "./check %s --tier thorough" % pid,
            "evidence_file": "/verif/evidence/%s.json" % pid,
            "replay_cmd_template": "./check explain {path}",
            "engine": "sa",
            "level_claimed": {"category": "other", "text": c["text"], "design_ref": c["ref"]},
            "level_note": c["note"],
            "technique": c["technique"],
        })
    else:
        na.append({"property_id": pid, "reason": NOT_APPLICABLE.get(pid, "checker not built yet (build in progress; DESIGN.md section 7)")})
m = {
    "version": 1,
    "setup_cmd": "/venv/bin/python -m compileall -q sa || python3 -m compileall -q sa",
    "hooks": {"guard": "THEJOKER_VERIF", "enable": "none: static analysis needs no instrumentation; no guarded source change exists",
              "baseline_off_cmd": "cd /repo && /venv/bin/python -m pytest -ra -q -p no:cacheprovider --timeout=900 --continue-on-collection-errors",
              "source_commits": [], "add_only": True},
    "engines": [{"name": "sa", "path": "/verif/sa", "serves_properties": [c["property_id"] for c in checks],
                 "kind_free_text": "repository-specific static analyser: ast + fail-closed Cython desugarer, forward substitution over reaching definitions, "
                                   "exact rational/linear normal forms, structural dominance, typed abstract domains (index spaces, unit tags, row order, field def-use, rng provenance, file effects); pure stdlib"}],
    "checks": checks,
    "not_applicable": na,
    "notes": "Static-analysis family only: no check imports or runs /repo. Exit 0 = all enumerated obligations discharged (or only known findings); "
             "1 = VIOLATION; 2 = ANALYSIS-INCOMPLETE (anchor vanished / unrecognised idiom / self-test failure) - never a silent pass. "
             "thorough = quick + the mutation/twin corpus slice of that property + its confirmed seeded changes (must be reported) + 75 behaviour-preserving "
             "refactoring patches (must stay silent), all as in-memory overlays of the current tree.",
}
json.dump(m, open(os.path.join(HERE, "..", "MANIFEST.json"), "w"), indent=1)
print("claimed:", [c["property_id"] for c in checks])
