import warnings; warnings.filterwarnings("ignore")
import numpy as np, astropy.units as u, pymc as pm, tempfile, os
import thejoker as tj
from thejoker.multiproc_helpers import marginal_ln_likelihood_helper
from thejoker.utils import read_batch
rng = np.random.default_rng(1)
t = 56000 + np.sort(rng.uniform(0, 3000, 12))
rv = 5*np.sin(2*np.pi*t/37.3) * u.km/u.s
data = tj.RVData(t, rv, rv_err=np.full(12, 0.1)*u.km/u.s)
with pm.Model():
    prior = tj.JokerPrior.default(P_min=0.02*u.yr, P_max=2*u.yr, sigma_K0=30*u.km/u.s, sigma_v=100*u.km/u.s)
samples = prior.sample(size=256, rng=np.random.default_rng(2), dtype=np.float32)
print("P unit", samples["P"].unit, samples["P"].dtype)
joker = tj.TheJoker(prior, rng=np.random.default_rng(3))
fn = os.path.join(tempfile.mkdtemp(), "s.hdf5"); samples.write(fn, overwrite=True)
helper = joker._make_joker_helper(data)
cols = helper.packed_order; units = helper.internal_units
a = read_batch(fn, cols, slice(0, 256), units=units)
b = read_batch(fn, cols, np.arange(256), units=units)
print("slice dtype", a.dtype, "idx dtype", b.dtype, "max rel diff in P", np.max(np.abs(a[:,0].astype(float)-b[:,0])/b[:,0]))
ll_slice = marginal_ln_likelihood_helper(helper, fn, pool=joker.pool, n_batches=1)
ll_idx = marginal_ln_likelihood_helper(helper, fn, pool=joker.pool, n_batches=1, samples_idx=np.arange(256))
ll_mem = joker.marginal_ln_likelihood(data, samples, in_memory=True) if "in_memory" in joker.marginal_ln_likelihood.__code__.co_varnames else None
print("max |lnL slice - idx| =", np.max(np.abs(ll_slice-ll_idx)))
