"""Validation of the kernel fixes F1 (jitter) and F2 (cap on the posterior path) against the closed form.

Cython is not installed, so the .pyx cannot be rebuilt.  A scratch copy of the generated C was patched with the equivalent
edits (F1: the six `ivar` reads of pyx lines 274/317/333/337-339/401 -> `s_ivar`; F2: a hand-written
`Lambda[0] = min(max_K**2, Lambda[0])` after the posterior path's variance rule) and compiled with gcc outside /repo;
this script is run with PYTHONPATH pointing at that scratch package and compares
  marginal_ln_likelihood  with  ln N(y | M mu, C + s^2 I + M Lambda M^T)   (numpy closed form, the statement of C01)
  (a, A) of the posterior path with  A = (Lambda^-1 + M^T C_s^-1 M)^-1, a = A (Lambda^-1 mu + M^T C_s^-1 y)  (C03)
for s = 0, 0.7, 5 km/s, poly_trend 2, a non-zero v0 mean, and a (P, e) for which the K-variance cap binds.
"""
import warnings; warnings.filterwarnings("ignore")
import numpy as np, astropy.units as u, pymc as pm
from astropy.time import Time
import thejoker as tj, thejoker.units as xu
from twobody import KeplerOrbit
print("thejoker from", tj.__file__)
kms = u.km/u.s
r = np.random.default_rng(4)
n = 9
t = 55000 + np.sort(r.uniform(0, 200, n))
data = tj.RVData(Time(t, format="mjd", scale="tcb"), r.normal(0, 8, n)*kms, r.uniform(.5, 1.5, n)*kms, t_ref=Time(55010., format="mjd", scale="tcb"))
with pm.Model():
    v0 = xu.with_unit(pm.Normal("v0", 3.0, 20.), kms)
    v1 = xu.with_unit(pm.Normal("v1", 0.0, .5), kms/u.day)
    prior = tj.JokerPrior.default(P_min=1*u.day, P_max=500*u.day, sigma_K0=30*kms, sigma_v=None, poly_trend=2, pars={"v0": v0, "v1": v1})
joker = tj.TheJoker(prior)
helper = joker._make_joker_helper(data)
worst = 0.
for P, e in ((37.3, 0.31), (1.2e-3, 0.93)):          # second point: sigma_K0 (P/P0)^(-1/3)/sqrt(1-e^2) > max_K = 500 km/s
    for s in (0.0, 0.7, 5.0):
        om, M0 = 1.1, 2.3
        smp = tj.JokerSamples(); smp["P"] = [P]*u.day; smp["e"] = [e]*u.one; smp["omega"] = [om]*u.rad; smp["M0"] = [M0]*u.rad; smp["s"] = [s]*kms
        ll = joker.marginal_ln_likelihood(data, smp, in_memory=True)[0]
        # closed form
        orb = KeplerOrbit(P=P*u.day, e=e, omega=om*u.rad, M0=M0*u.rad, a=1*u.au, i=90*u.deg, Omega=0*u.deg, t0=data.t_ref)
        kcol = orb.unscaled_radial_velocity(data.t)      # cos(omega + f) + e cos omega
        dt = data._t_bmjd - data._t_ref_bmjd
        M = np.stack([np.asarray(kcol), np.ones(n), dt], axis=1)
        varK = min((30.)**2 * (P/365.25)**(-2/3) / (1 - e**2), 500.**2)
        mu = np.array([0., 3., 0.]); Lam = np.diag([varK, 20.**2, .5**2])
        C = np.diag(data.rv_err.value**2 + s**2)
        B = C + M @ Lam @ M.T
        y = data.rv.value
        d = y - M @ mu
        ref = -0.5*(d @ np.linalg.solve(B, d) + np.linalg.slogdet(2*np.pi*B)[1])
        chunk = np.array([[P, e, om, M0, s]])
        helper.batch_get_posterior_samples(chunk, 1, np.random.default_rng(0))
        A_ref = np.linalg.inv(np.linalg.inv(Lam) + M.T @ np.linalg.inv(C) @ M)
        a_ref = A_ref @ (np.linalg.inv(Lam) @ mu + M.T @ np.linalg.inv(C) @ y)
        dA = np.abs(np.linalg.inv(np.array(helper.Ainv)) - A_ref).max() / np.abs(A_ref).max()
        da = np.abs(np.array(helper.a) - a_ref).max() / np.abs(a_ref).max()
        print("P=%-8g e=%.2f s=%.1f  ll=%.6f closed form=%.6f diff=%.2e | posterior path: rel.err A %.1e a %.1e" % (P, e, s, ll, ref, ll - ref, dA, da))
        worst = max(worst, abs(ll - ref) / max(1, abs(ref)), dA, da)
print("worst relative deviation:", worst)
assert worst < 1e-6
