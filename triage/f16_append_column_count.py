import warnings; warnings.filterwarnings("ignore")
import numpy as np, astropy.units as u, os, hashlib
import thejoker as tj
kms=u.km/u.s
def mk(n, extra=False, unit=u.day):
    s=tj.JokerSamples()
    s["P"]=np.linspace(1,2,n)*unit; s["e"]=np.zeros(n)*u.one; s["omega"]=np.zeros(n)*u.rad; s["M0"]=np.zeros(n)*u.rad; s["s"]=np.zeros(n)*kms
    if extra: s["K"]=np.ones(n)*kms
    return s
fn="/tmp/t/app.hdf5"
for label, second in [("extra column", mk(3, extra=True)), ("fewer columns", None), ("other unit", mk(3, unit=u.yr))]:
    if os.path.exists(fn): os.remove(fn)
    first = mk(4, extra=(label=="fewer columns"))
    first.write(fn)
    h0=hashlib.md5(open(fn,'rb').read()).hexdigest()
    sec = second if second is not None else mk(3)
    try:
        sec.write(fn, append=True); r="ACCEPTED"
    except Exception as e:
        r="raised %s: %s"%(type(e).__name__, str(e)[:80])
    h1=hashlib.md5(open(fn,'rb').read()).hexdigest()
    try: n=len(tj.JokerSamples.read(fn))
    except Exception as e: n="read fails: %s"%type(e).__name__
    print(label, "|", r, "| file changed:", h0!=h1, "| rows now:", n)
