"""Shows that the one-line repair of F6 makes the stable test test_design_matrix fail."""
import warnings; warnings.filterwarnings("ignore")
import inspect
import thejoker.data_helpers as dh
import thejoker.tests.test_likelihood_helpers as tl, thejoker.tests.test_data as td

src = inspect.getsource(dh.validate_prepare_data)
assert "ids = np.concatenate(ids)" in src
ns = dict(dh.__dict__)
exec(src.replace("ids = np.concatenate(ids)", "ids = np.concatenate(ids)[np.argsort(t)]"), ns)
for mod in (tl, td):
    mod.validate_prepare_data = ns["validate_prepare_data"]
for name, fn in (("test_design_matrix", tl.test_design_matrix), ("test_multi_data", td.test_multi_data)):
    try:
        fn(); print(name, "passes with the repaired labels")
    except AssertionError:
        print(name, "FAILS with the repaired labels")
