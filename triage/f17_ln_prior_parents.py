import warnings; warnings.filterwarnings("ignore")
import numpy as np, astropy.units as u, pymc as pm
import thejoker as tj
from scipy.stats import norm
kms=u.km/u.s
with pm.Model():
    prior = tj.JokerPrior.default(P_min=2*u.day, P_max=100*u.day, sigma_K0=30*kms, sigma_v=100*kms)
s = prior.sample(size=2000, generate_linear=True, return_logprobs=True, rng=np.random.default_rng(1))
P=s['P'].value; e=s['e'].value; K=s['K'].to_value(kms); v0=s['v0'].to_value(kms)
sigK=np.minimum(30*(P/365.25)**(-1/3)/np.sqrt(1-e**2), 500)
from scipy.stats import beta
true = -np.log(P)-np.log(np.log(50)) + beta.logpdf(e,0.867,3.03) + norm.logpdf(K,0,sigK) + norm.logpdf(v0,0,100)
d = s['ln_prior'].value - true
print("spread of ln_prior - true log density:", d.std(), d.min(), d.max())
