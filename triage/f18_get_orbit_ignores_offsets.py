"""F18: JokerSamples.get_orbit / ln_unmarginalized_likelihood ignore the survey offsets dv0_k (C04)."""
import warnings; warnings.filterwarnings("ignore")
import numpy as np, astropy.units as u, pymc as pm
from astropy.time import Time
import thejoker as tj, thejoker.units as xu
from thejoker.data_helpers import validate_prepare_data
from thejoker.likelihood_helpers import ln_normal
kms = u.km/u.s
r = np.random.default_rng(3)
t1 = 55000 + np.sort(r.uniform(0, 50, 8)); t2 = 55100 + np.sort(r.uniform(0, 50, 6))   # disjoint surveys, already time-ordered
P, K, off = 13.0, 8.0, 5.0
rv = lambda t: K*np.cos(2*np.pi*(t-55000)/P)
d1 = tj.RVData(Time(t1, format="mjd", scale="tcb"), (rv(t1) + r.normal(0, .1, 8))*kms, np.full(8, .1)*kms)
d2 = tj.RVData(Time(t2, format="mjd", scale="tcb"), (rv(t2) + off + r.normal(0, .1, 6))*kms, np.full(6, .1)*kms)
with pm.Model():
    dv = xu.with_unit(pm.Normal("dv0_1", 0, 10.), kms)
    prior = tj.JokerPrior.default(P_min=2*u.day, P_max=50*u.day, sigma_K0=30*kms, sigma_v=100*kms, v0_offsets=[dv])
joker = tj.TheJoker(prior, rng=np.random.default_rng(1))
ps = prior.sample(size=60000, rng=np.random.default_rng(2))
s = joker.rejection_sample([d1, d2], ps, max_posterior_samples=1)
all_data, ids, M = validate_prepare_data([d1, d2], 1, 1)
print("posterior sample: P=%.3f K=%.2f v0=%.2f dv0_1=%.2f" % (s["P"][0].value, s["K"][0].to_value(kms), s["v0"][0].to_value(kms), s["dv0_1"][0].to_value(kms)))
ll_api = s.ln_unmarginalized_likelihood(all_data)[0]
model = s.get_orbit(0).radial_velocity(all_data.t).to_value(kms) + s["dv0_1"][0].to_value(kms) * M[:, 1]
ll_model = ln_normal(model, all_data.rv.to_value(kms), all_data.rv_err.to_value(kms)**2).sum()
print("ln_unmarginalized_likelihood (API, no offsets):", ll_api)
print("Gaussian log-likelihood of the sampler's model (with dv0_1 on survey 2):", ll_model)
assert abs(ll_api - ll_model) > 10
