"""One-off confirmation of the DESIGN.md §5 findings against the real code."""
import warnings; warnings.filterwarnings("ignore")
import numpy as np, astropy.units as u
from astropy.time import Time
import pymc as pm, pytensor
import thejoker as tj, thejoker.units as xu
from thejoker.data_helpers import validate_prepare_data
from thejoker.distributions import UniformLog
import thejoker.likelihood_helpers as lh

kms = u.km / u.s

def mkdata(n, seed, t0=55000.0):
    r = np.random.default_rng(seed)
    t = Time(t0 + r.uniform(0, 300, n), format="mjd", scale="tcb")
    return tj.RVData(t, r.normal(0, 10, n) * kms, np.full(n, 1.0) * kms)

def default_prior(Punit=u.day, **kw):
    with pm.Model():
        return tj.JokerPrior.default(P_min=(2 * u.day).to(Punit), P_max=(100 * u.day).to(Punit),
                                     sigma_K0=30 * kms, sigma_v=100 * kms, **kw)

def two_samples(s=0.0):
    smp = tj.JokerSamples()
    smp["P"] = [10.0, 20.0] * u.day; smp["e"] = [0.1, 0.3] * u.one
    smp["omega"] = [1.0, 2.0] * u.rad; smp["M0"] = [0.5, 0.7] * u.rad
    smp["s"] = [s, s] * kms
    return smp

data = mkdata(8, 1)
prior = default_prior()

print("F1  jitter ignored by the kernel (C01/C03/C04):")
for s in (0.0, 5.0, 50.0):
    print("    s =", s, tj.TheJoker(prior).marginal_ln_likelihood(data, two_samples(s), in_memory=True))

print("F2  max_K cap missing in the posterior path (C03): Ainv[0,0] after each path")
h = tj.TheJoker(prior)._make_joker_helper(mkdata(4, 1))
chunk = np.array([[0.001, 0.9, 1.0, 0.5, 0.0]])
h.batch_marginal_ln_likelihood(chunk); a1 = np.array(h.Ainv)[0, 0]
h.batch_get_posterior_samples(chunk, 1, np.random.default_rng(0)); a2 = np.array(h.Ainv)[0, 0]
print("    marginal", a1, " posterior", a2)

print("F3  custom Normal K prior + offsets mis-slotted (C01):")
d1, d2 = mkdata(6, 2), mkdata(5, 3)
for n_off in (0, 1):
    with pm.Model():
        K = xu.with_unit(pm.Normal("K", 0, 30.0), kms)
        offs = [xu.with_unit(pm.Normal("dv0_1", 0, 5.0), kms)] if n_off else []
        p = tj.JokerPrior.default(P_min=2 * u.day, P_max=100 * u.day, sigma_v=100 * kms,
                                  pars={"K": K}, v0_offsets=offs)
    dd = [d1, d2] if n_off else d1
    print("    n_offsets =", n_off, tj.TheJoker(p).marginal_ln_likelihood(dd, two_samples(), in_memory=True))

print("F4  P0 taken in the prior's period unit (C07): same prior, period declared in day / yr")
for Punit in (u.day, u.year):
    print("   ", Punit, tj.TheJoker(default_prior(Punit)).marginal_ln_likelihood(data, two_samples(), in_memory=True))

print("F5  ln_prior read without field= (C06):")
ps = prior.sample(size=2000, return_logprobs=True, rng=np.random.default_rng(5))
out = tj.TheJoker(prior, rng=np.random.default_rng(2)).rejection_sample(mkdata(4, 1), ps, return_logprobs=True)
print("    dtype of returned ln_prior column:", out["ln_prior"].dtype)

print("F6  survey labels not re-sorted with the merged data (C08):")
a = tj.RVData(Time(55000.0 + np.array([1.0, 3.0, 5.0]), format="mjd", scale="tcb"), [1, 1, 1] * kms, [1, 1, 1] * kms)
b = tj.RVData(Time(55000.0 + np.array([2.0, 4.0]), format="mjd", scale="tcb"), [2, 2] * kms, [1, 1] * kms)
alld, ids, M = validate_prepare_data([a, b], 1, 1)
print("    merged rv", alld.rv.value, " ids", ids, " offset column", M[:, 1])

print("F7  UniformLog.logp (C09):")
x = np.array([2.0, 10.0, 50.0, 200.0])
print("    got     ", pm.logp(UniformLog.dist(2.0, 100.0), x).eval())
print("    expected", -np.log(x) - np.log(np.log(100 / 2)), "(and -inf at 200: F8)")

print("F9  rng not forwarded to prior.sample (C10): two equal-seed runs")
for _ in range(2):
    o = tj.TheJoker(prior, rng=np.random.default_rng(2)).rejection_sample(mkdata(4, 1), 500, in_memory=True)
    print("   ", o["P"][:3].value)

print("F10 setup_mcmc ln_likelihood diagnostic without jitter (C11):")
r = np.random.default_rng(1)
d6 = mkdata(6, 1)
with pm.Model() as model:
    s = xu.with_unit(pm.Lognormal("s", 0, 0.5), kms)
    prior2 = tj.JokerPrior.default(P_min=2 * u.day, P_max=100 * u.day, sigma_K0=30 * kms, sigma_v=100 * kms, s=s)
vals = dict(P=10.0, e=0.2, omega=1.0, M0=0.5, s=3.0, K=5.0, v0=1.0)
units = dict(P=u.day, e=u.one, omega=u.rad, M0=u.rad, s=kms, K=kms, v0=kms)
smp = tj.JokerSamples(t_ref=d6.t_ref)
for k, v in vals.items():
    smp[k] = [v] * units[k]
with model:
    tj.TheJoker(prior2, rng=r).setup_mcmc(d6, smp)
giv = [(prior2.pars[k], pytensor.tensor.as_tensor_variable(np.float64(v))) for k, v in vals.items()]
ll, mrv = pytensor.function([], [model["ln_likelihood"], model["model_rv"]], givens=giv, on_unused_input="ignore")()
y = d6.rv.value
print("    model_rv equals get_orbit rv:", np.allclose(mrv, smp.get_orbit(0).radial_velocity(d6.t).to_value(kms)))
for sv in (0.0, 3.0):
    var = 1.0 + sv**2
    print("    ln N(y | rv, err^2 + %g^2) =" % sv, (-0.5 * (np.log(2 * np.pi * var) + (y - mrv) ** 2 / var)).sum())
print("    model['ln_likelihood']      =", float(ll))

print("F12 iterative_rejection_inmem returns an exception object (C14):")
ps3 = prior.sample(size=300, rng=np.random.default_rng(5))
ps3["omega"][3] = np.nan * ps3["omega"].unit
o = tj.TheJoker(prior, rng=np.random.default_rng(2)).iterative_rejection_sample(
    mkdata(6, 1), ps3, n_requested_samples=4, init_batch_size=100, in_memory=True)
print("    returned:", repr(o)[:90])

print("F13 in-memory iterative path ignores max_prior_samples (C14):")
calls = []; orig = lh.marginal_ln_likelihood_inmem
lh.marginal_ln_likelihood_inmem = lambda hh, bb: (calls.append(len(bb)), orig(hh, bb))[1]
tj.TheJoker(prior, rng=np.random.default_rng(2)).iterative_rejection_sample(
    mkdata(12, 7), ps, n_requested_samples=64, init_batch_size=50, max_prior_samples=100, in_memory=True)
lh.marginal_ln_likelihood_inmem = orig
print("    evaluated", sum(calls), "prior samples with a budget of 100")

print("F14 RVData.copy() drops t_ref (C15):")
t = 56000 + np.array([0.3, 0.4, 0.5, 0.6]) * 10
d = tj.RVData(t, np.zeros(4) * kms, np.ones(4) * kms, t_ref=Time(56000.0, format="mjd", scale="tcb"))
print("    t_ref", d.t_ref.mjd, "-> copy", d.copy().t_ref.mjd)

print("F15 max_phase_gap misses the wrap-around arc (C19):")
ss = tj.JokerSamples(); ss["P"] = [10.0] * u.day
print("    got", tj.max_phase_gap(ss[0], d), "expected 0.7")
